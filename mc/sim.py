"""E4: simulated SpiNNaker machine - the *environment* of MachineController.

Written from the prose of the controller's docstrings/comments and the SC&MP
conventions they cite; it never imports rig's packing code.  It is also a
monitor: malformed commands are recorded in `errors`."""
import os
import re
import struct

OK = 0x80
RC_ARG = 0x84
RC_P2P_TIMEOUT = 0x8e
RC_CPU = 0x88

CMD_VER, CMD_READ, CMD_WRITE, CMD_FILL = 0, 2, 3, 5
CMD_LINK_READ, CMD_LINK_WRITE, CMD_NNP, CMD_SIG, CMD_FFD = 17, 18, 20, 22, 23
CMD_LED, CMD_IPTAG, CMD_ALLOC, CMD_RTR, CMD_INFO = 25, 26, 28, 29, 31

RTR_P2P = 0xE1010000
RTR_DIAG = 0xE1000300
LINK_VEC = {0: (1, 0), 1: (1, 1), 2: (0, 1), 3: (-1, 0), 4: (-1, -1),
            5: (0, -1)}
ST_IDLE, ST_WAIT, ST_RUN = 15, 5, 7
PACKS = {b"A": "s", b"c": "b", b"C": "B", b"v": "H", b"V": "I"}


def parse_struct_file(path):
    """Tiny independent reader of sark.struct: {struct: dict(base, size,
    fields={name: (fmt, offset, default, length)})}"""
    out = {}
    cur = None
    for line in open(path, "rb").read().splitlines():
        t = re.sub(b"#.*$", b"", line).strip().split()
        if len(t) == 3:
            k, _, v = t
            if k == b"name":
                cur = out.setdefault(v.decode(), dict(fields={}))
            else:
                cur[k.decode()] = int(v, 0)
        elif len(t) == 5:
            name, pack, off, _, default = t
            m = re.match(rb"(\w)(\d+)$", pack)
            if m:
                fmt = m.group(2).decode() + PACKS[m.group(1)]
            else:
                fmt = PACKS[pack]
            length = 1
            m = re.match(rb"(\w+)\[(\d+)\]$", name)
            if m:
                name, length = m.group(1), int(m.group(2))
            cur["fields"][name.decode()] = (fmt, int(off, 0),
                                            int(default, 0), length)
    return out


_structs = {}


def structs(repo):
    p = os.path.join(repo, "rig", "boot", "sark.struct")
    if p not in _structs:
        _structs[p] = parse_struct_file(p)
    return _structs[p]


class Memory(object):
    """Sparse byte-addressable memory with a position dependent pattern."""
    PAGE = 256

    def __init__(self, salt):
        self.pages = {}
        self.salt = salt

    def _page(self, n):
        p = self.pages.get(n)
        if p is None:
            base = n * self.PAGE
            p = bytearray(((base + i) * 131 + ((base + i) >> 8) * 7 +
                           self.salt) & 0xff for i in range(self.PAGE))
            self.pages[n] = p
        return p

    def read(self, addr, n):
        out = bytearray()
        while n > 0:
            pg, off = divmod(addr, self.PAGE)
            take = min(n, self.PAGE - off)
            out += self._page(pg)[off:off + take]
            addr += take
            n -= take
        return bytes(out)

    def write(self, addr, data):
        data = bytes(data)
        i = 0
        while i < len(data):
            pg, off = divmod(addr + i, self.PAGE)
            take = min(len(data) - i, self.PAGE - off)
            self._page(pg)[off:off + take] = data[i:i + take]
            i += take

    def snapshot(self):
        return {n: bytes(p) for n, p in self.pages.items()}


class Chip(object):
    def __init__(self, sim, x, y):
        self.sim = sim
        self.x, self.y = x, y
        self.mem = Memory((x * 17 + y * 29) & 0xff)
        self.num_cpus = 18
        self.core_state = [ST_RUN] + [ST_IDLE] * 17
        self.core_app = [0] * 18
        self.core_image = [None] * 18
        self.core_name = [b"scamp"] + [b""] * 17
        self.links = set(range(6))
        self.eth_up = False
        self.ip = (0, 0, 0, 0)
        self.local_eth = (0, 0)
        self.sdram_free = 100 * 1024 * 1024
        self.sram_free = 20000
        self.heap_ptr = 0x60240000
        self.allocs = {}                 # ptr -> (size, app_id, tag)
        self.router = [None] * 1024      # (key, mask, route, app_id)
        self.router[0] = (0xffffffff, 0xffffffff, 0, 0)   # system entry
        self.responsive = True
        # system areas live at chip-dependent addresses (a controller must
        # read them from the chip it is talking to)
        k = 0 if getattr(sim, "uniform_sys", False) else (x * 5 + y * 3) % 7
        self.vcpu_base = 0xe5007000 + 0x1000 * k
        self.sdram_sys = 0x60e00000 + 0x400 * k
        self.rtr_copy = 0x60e10000 + 0x8000 * k
        self.iobuf_size = 64
        self.alloc_tag = 0x60e20000

    # ---- memory mapped structures -----------------------------------------
    def put_field(self, sname, fname, value, index=0):
        st = structs(self.sim.repo)[sname]
        fmt, off, _, length = st["fields"][fname]
        base = st["base"]
        if sname == "vcpu":
            base = self.vcpu_base + st["size"] * index
        if fmt.endswith("s"):
            data = struct.pack("<" + fmt, value)
        else:
            data = struct.pack("<" + fmt, value)
        self.mem.write(base + off, data)

    def sync_structs(self, full=True):
        """Write the machine state into the memory-mapped system blocks."""
        sim = self.sim
        self.put_field("sv", "p2p_addr", (self.x << 8) | self.y)
        self.put_field("sv", "p2p_dims", (sim.p2p_w << 8) | sim.p2p_h)
        self.put_field("sv", "vcpu_base", self.vcpu_base)
        self.put_field("sv", "sdram_sys", self.sdram_sys)
        self.put_field("sv", "rtr_copy", self.rtr_copy)
        self.put_field("sv", "iobuf_size", self.iobuf_size)
        self.put_field("sv", "num_cpus", self.num_cpus)
        self.put_field("sv", "alloc_tag", self.alloc_tag)
        self.put_field("sv", "eth_up", 1 if self.eth_up else 0)
        for p in range(18):
            self.sync_core(p)
        if not full:
            return
        # point-to-point table: 3 bits per entry, 8 per word, column stride
        # of 256 entries
        for col in range(sim.p2p_w):
            words = [0] * ((sim.p2p_h + 7) // 8)
            for row in range(sim.p2p_h):
                e = sim.p2p_entry(self, col, row)
                words[row // 8] |= e << (3 * (row % 8))
            self.mem.write(RTR_P2P + (256 * col // 8) * 4,
                           struct.pack("<%dI" % len(words), *words))
        self.sync_router()

    def sync_core(self, p):
        self.put_field("vcpu", "cpu_state", self.core_state[p], p)
        self.put_field("vcpu", "app_id", self.core_app[p], p)
        self.put_field("vcpu", "app_name", self.core_name[p][:16], p)
        self.put_field("vcpu", "phys_cpu", (p + 3) % 18, p)
        if self.sim.tidy_vcpu:
            # keep derived readers (status, console buffer) well defined
            self.put_field("vcpu", "iobuf", 0, p)
            self.put_field("vcpu", "rt_code", 0, p)

    def sync_router(self):
        """The router copy is materialised lazily (on the next read)."""
        self.router_dirty = True

    def flush_router(self):
        if not getattr(self, "router_dirty", False):
            return
        self.router_dirty = False
        for i, e in enumerate(self.router):
            if e is None:
                rec = struct.pack("<2H3I", 0, 0, 0xff000000, 0, 0)
            else:
                key, mask, route, app = e
                rec = struct.pack("<2H3I", 0, app & 0xff, route, key, mask)
            self.mem.write(self.rtr_copy + 16 * i, rec)

    def largest_free_router_block(self):
        best = cur = 0
        for e in self.router:
            cur = cur + 1 if e is None else 0
            best = max(best, cur)
        return best

    def alloc_router(self, count, app_id):
        if count <= 0:
            return 0
        run = 0
        for i in range(1, 1024):
            run = run + 1 if self.router[i] is None else 0
            if run == count:
                base = i - count + 1
                for j in range(base, base + count):
                    self.router[j] = ("alloc", 0, 0, app_id)
                return base
        return 0


class Fill(object):
    def __init__(self, pid, n_blocks, arg3):
        self.pid = pid
        self.n_blocks = n_blocks
        self.selections = []
        self.blocks = []        # (block_no, address, data)
        self.ended = False
        self.miss = set()


class SimMachine(object):
    def __init__(self, repo, width=2, height=2, dead=(), buffer_size=256,
                 version=133, version_string=b"SC&MP/SpiNNaker\0",
                 uniform_sys=False):
        self.repo = repo
        # True: every chip has its system areas at the same addresses (as
        # real boards usually do); False: chip-dependent addresses
        self.uniform_sys = uniform_sys
        self.w, self.h = width, height
        self.p2p_w, self.p2p_h = width, height
        self.buffer_size = buffer_size
        self.version = version
        self.version_string = version_string
        self.build_date = 1400000000
        self.chips = {}
        for x in range(width):
            for y in range(height):
                if (x, y) not in dead:
                    self.chips[(x, y)] = Chip(self, x, y)
        self.root = (0, 0)
        self.hosts = {}            # host string -> chip coordinates
        self.errors = []
        self.cmds = []             # decoded commands in arrival order
        self.fills = []
        self.cur_fill = None
        self.signals = []
        self.ff_miss = None        # callable(fill) -> set of chips missing it
        self.fate = None           # callable(sim, cmd) -> list of fates
        self.alloc_fail = None
        self.p2p_none = set()      # chips listed as unreachable in p2p table
        self.full_sync = True      # also materialise p2p table + router copy
        self.full_sync_chips = None  # restrict the full sync to these chips
        self.tidy_vcpu = False
        if (0, 0) in self.chips:
            c = self.chips[(0, 0)]
            c.eth_up = True
            c.ip = (10, 0, 0, 1)

    def sync(self):
        for xy, c in self.chips.items():
            c.sync_structs(self.full_sync if self.full_sync_chips is None
                           else xy in self.full_sync_chips)

    def p2p_entry(self, chip, col, row):
        if (col, row) not in self.chips or (col, row) in self.p2p_none:
            return 0b110
        if (col, row) == (chip.x, chip.y):
            return 0b111
        dx = (col - chip.x)
        dy = (row - chip.y)
        if dx > 0 and dy > 0:
            return 1
        if dx < 0 and dy < 0:
            return 4
        if dx > 0:
            return 0
        if dx < 0:
            return 3
        return 2 if dy > 0 else 5

    def err(self, msg):
        self.errors.append(msg)

    # ------------------------------------------------------------ datagrams
    def __call__(self, sock, data, net):
        """fakenet responder."""
        if len(data) < 14:
            self.err("short datagram %r" % data)
            return []
        flags, tag, dpc, spc, dy, dx, sy, sx = struct.unpack_from("<8B", data,
                                                                  2)
        cmd, seq = struct.unpack_from("<2H", data, 10)
        body = data[14:]
        a = [0, 0, 0]
        n = min(3, len(body) // 4)
        for i in range(n):
            a[i] = struct.unpack_from("<I", body, 4 * i)[0]
        payload = body[12:]
        host = sock.addr[0] if sock.addr else None
        entry = self.hosts.get(host, self.root)
        target = entry if (dx, dy) == (255, 255) else (dx, dy)
        cpu = dpc & 0x1f
        port = dpc >> 5
        rec = dict(host=host, chip=target, raw_chip=(dx, dy), cpu=cpu,
                   port=port, cmd=cmd, seq=seq, arg1=a[0], arg2=a[1],
                   arg3=a[2], data=bytes(payload), nargs=n, flags=flags,
                   tag=tag)
        self.cmds.append(rec)
        if flags != 0x87:
            self.err("request without reply-expected flag")
        fates = ["ok"]
        if self.fate is not None:
            fates = self.fate(self, rec)
        out = []
        executed = False
        reply = None
        for f in fates:
            if f == "lost":
                continue
            if isinstance(f, tuple) and f[0] == "busy_late":
                # a second copy of a retryable answer, delivered f[1] later
                pkt = (b"\x00\x00" +
                       bytes([0x07, tag, spc, dpc, sy, sx, dy, dx]) +
                       struct.pack("<2H", 0x8d, seq))
                out.append((f[1], pkt, dict(kind="busy_late", seq=seq)))
                continue
            if f == "busy":
                # the command never reaches its chip: the Ethernet chip
                # answers with a retryable return code (RC_P2P_BUSY)
                pkt = (b"\x00\x00" +
                       bytes([0x07, tag, spc, dpc, sy, sx, dy, dx]) +
                       struct.pack("<2H", 0x8d, seq))
                out.append((net.LATENCY, pkt, dict(kind=f, seq=seq)))
                continue
            if not executed:
                reply = self.execute(rec)
                executed = True
            if f == "reply_lost" or reply is None:
                continue
            rc, rargs, rdata = reply
            pkt = (b"\x00\x00" + bytes([0x07, tag, spc, dpc, sy, sx, dy, dx])
                   + struct.pack("<2H", rc, seq) +
                   b"".join(struct.pack("<I", v & 0xffffffff)
                            for v in rargs) + rdata)
            delay = {"ok": net.LATENCY, "dup": 3 * net.LATENCY,
                     "slow": 5 * net.LATENCY}.get(f, net.LATENCY)
            if isinstance(f, tuple):
                delay = f[1]
            out.append((delay, pkt, dict(kind=f, seq=seq)))
        return out

    # ------------------------------------------------------------- commands
    def execute(self, r):
        chip = self.chips.get(r["chip"])
        cmd = r["cmd"]
        if chip is None or not chip.responsive:
            return (RC_P2P_TIMEOUT, [], b"")
        if r["cpu"] >= chip.num_cpus:
            return (RC_CPU, [], b"")
        a1, a2, a3, data = r["arg1"], r["arg2"], r["arg3"], r["data"]
        if cmd == CMD_VER:
            arg1 = (((chip.x << 8) | chip.y) << 16) | \
                (((r["cpu"] + 3) % 18) << 8) | r["cpu"]
            bs = self.buffer_size
            if r["cpu"] != 0 and getattr(self, "app_buffer_size", None):
                # an application core may advertise another buffer size; the
                # machine's (monitor's) figure governs transfers
                bs = self.app_buffer_size
            arg2 = (self.version << 16) | bs
            return (OK, [arg1, arg2, self.build_date], self.version_string)
        if cmd in (CMD_READ, CMD_WRITE):
            unit = {0: 1, 1: 2, 2: 4}.get(a3)
            what = "read" if cmd == CMD_READ else "write"
            if unit is None:
                self.err("%s with unknown access type %d" % (what, a3))
                return (RC_ARG, [], b"")
            if a2 > self.buffer_size:
                self.err("%s of %d bytes exceeds the advertised buffer of %d"
                         % (what, a2, self.buffer_size))
            if a1 % unit or a2 % unit:
                self.err("%s at %#x length %d uses %d-byte accesses"
                         % (what, a1, a2, unit))
            n = (a2 // unit) * unit
            if cmd == CMD_READ:
                if chip.rtr_copy < a1 + n and a1 < chip.rtr_copy + 16384:
                    chip.flush_router()
                return (OK, [], chip.mem.read(a1, n))
            if len(data) != a2:
                self.err("write announces %d bytes, carries %d" % (a2,
                                                                   len(data)))
            chip.mem.write(a1, data[:n])
            return (OK, [], b"")
        if cmd == CMD_FILL:
            if a1 % 4 or a3 % 4:
                self.err("fill at %#x size %d is not word aligned" % (a1, a3))
                return (RC_ARG, [], b"")
            chip.mem.write(a1, struct.pack("<I", a2) * (a3 // 4))
            return (OK, [], b"")
        if cmd in (CMD_LINK_READ, CMD_LINK_WRITE):
            what = "link_read" if cmd == CMD_LINK_READ else "link_write"
            if a1 % 4 or a2 % 4:
                self.err("%s at %#x length %d is not word aligned"
                         % (what, a1, a2))
            if a2 > self.buffer_size:
                self.err("%s of %d bytes exceeds the buffer of %d"
                         % (what, a2, self.buffer_size))
            if a3 not in LINK_VEC:
                self.err("%s on link %d" % (what, a3))
                return (RC_ARG, [], b"")
            vx, vy = LINK_VEC[a3]
            nb = self.chips.get(((chip.x + vx) % self.w,
                                 (chip.y + vy) % self.h))
            if nb is None or a3 not in chip.links:
                return (RC_P2P_TIMEOUT, [], b"")
            n = (a2 // 4) * 4
            if cmd == CMD_LINK_READ:
                return (OK, [], nb.mem.read(a1, n))
            if len(data) != a2:
                self.err("link_write announces %d bytes, carries %d"
                         % (a2, len(data)))
            nb.mem.write(a1, data[:n])
            return (OK, [], b"")
        if cmd == CMD_NNP:
            return self.nnp(r)
        if cmd == CMD_FFD:
            return self.ffd(r)
        if cmd == CMD_SIG:
            return self.signal(r)
        if cmd == CMD_ALLOC:
            return self.alloc(chip, r)
        if cmd == CMD_RTR:
            return self.rtr(chip, r)
        if cmd == CMD_INFO:
            arg1 = (chip.num_cpus & 0x1f)
            for l in chip.links:
                arg1 |= 1 << (8 + l)
            arg1 |= (min(chip.largest_free_router_block(), 0x7ff)) << 14
            if chip.eth_up:
                arg1 |= 1 << 25
            states = bytes(chip.core_state[:18])
            data = states + struct.pack(
                "<HI", (chip.local_eth[0] << 8) | chip.local_eth[1],
                chip.ip[0] | chip.ip[1] << 8 | chip.ip[2] << 16 |
                chip.ip[3] << 24)
            return (OK, [arg1, chip.sdram_free, chip.sram_free], data)
        if cmd in (CMD_LED, CMD_IPTAG):
            if cmd == CMD_IPTAG and (a1 >> 16) == 2:
                return (OK, [], struct.pack("<4s6s3HI2HB", b"\x0a\0\0\x02",
                                            b"\0" * 6, 17893, 10, 0, 0, 0, 0,
                                            0))
            return (OK, [0, 0, 0], b"")
        self.err("unknown command %d" % cmd)
        return (0x83, [], b"")

    # ---- flood fill ---------------------------------------------------------
    def nnp(self, r):
        a1, a2, a3 = r["arg1"], r["arg2"], r["arg3"]
        op = a1 >> 24
        if op == 6:            # flood fill start
            pid = (a1 >> 16) & 0xff
            nb = (a1 >> 8) & 0xff
            if self.cur_fill is not None and not self.cur_fill.ended:
                self.err("flood fill started while another is open")
            if self.fills and self.fills[-1].pid == pid:
                self.err("fill id %d re-used for consecutive fills" % pid)
            if pid == 0 or pid % 2 or pid > 254:
                self.err("fill id %d is not a doubled id in 2..252" % pid)
            f = Fill(pid, nb, a3)
            self.cur_fill = f
            self.fills.append(f)
            return (OK, [0, 0, 0], b"")
        f = self.cur_fill
        if f is None or f.ended:
            self.err("flood-fill packet (op %d) outside a fill" % op)
            return (OK, [0, 0, 0], b"")
        if op == 7:            # core select
            mask = a1 & 0x3ffff
            if f.blocks:
                self.err("core selection sent after data blocks")
            if f.selections and not (f.selections[-1] < (a2, mask)):
                self.err("core selections not in increasing order: "
                         "(%#x,%#x) after (%#x,%#x)"
                         % ((a2, mask) + f.selections[-1]))
            f.selections.append((a2, mask))
            return (OK, [0, 0, 0], b"")
        if op == 15:           # end
            pid = a1 & 0xff
            if pid != f.pid:
                self.err("fill end carries id %d, fill was %d" % (pid, f.pid))
            app_id = a2 >> 24
            flags = (a2 >> 18) & 0x3f
            f.ended = True
            f.app_id = app_id
            f.flags = flags
            complete = (len(f.blocks) == f.n_blocks and
                        [b[0] for b in f.blocks] == list(range(f.n_blocks)))
            if len(f.blocks) != f.n_blocks:
                self.err("fill %d announced %d blocks, %d were sent"
                         % (f.pid, f.n_blocks, len(f.blocks)))
            if complete:
                image = b"".join(b[2] for b in f.blocks)
                f.image = image
                # which chips silently miss this fill is decided by the
                # harness once the fill's targets are known
                if self.ff_miss is not None:
                    f.miss = set(self.ff_miss(self, f))
                for (cx, cy), chip in self.chips.items():
                    if (cx, cy) in f.miss:
                        continue
                    for region, mask in f.selections:
                        if region_covers(region, cx, cy):
                            for p in range(18):
                                if mask & (1 << p) and p < chip.num_cpus:
                                    chip.core_image[p] = image
                                    chip.core_app[p] = app_id
                                    chip.core_state[p] = ST_WAIT if (
                                        flags & 1) else ST_RUN
                                    chip.core_name[p] = b"app"
                                    chip.sync_core(p)
            return (OK, [0, 0, 0], b"")
        self.err("unknown nearest-neighbour operation %d" % op)
        return (OK, [0, 0, 0], b"")

    def ffd(self, r):
        f = self.cur_fill
        a1, a2, a3, data = r["arg1"], r["arg2"], r["arg3"], r["data"]
        if f is None or f.ended:
            self.err("flood-fill data outside a fill")
            return (OK, [0, 0, 0], b"")
        pid = a1 & 0xff
        block = (a2 >> 16) & 0xff
        words = ((a2 >> 8) & 0xff) + 1
        if pid != f.pid:
            self.err("data block carries id %d, fill was %d" % (pid, f.pid))
        if len(data) != words * 4:
            self.err("data block %d announces %d words, carries %d bytes"
                     % (block, words, len(data)))
        if len(data) > self.buffer_size:
            self.err("data block of %d bytes exceeds buffer %d"
                     % (len(data), self.buffer_size))
        if block != len(f.blocks):
            self.err("data block numbered %d, expected %d"
                     % (block, len(f.blocks)))
        if f.blocks and a3 != f.blocks[-1][1] + len(f.blocks[-1][2]):
            self.err("data block %d at %#x does not follow the previous one"
                     % (block, a3))
        f.blocks.append((block, a3, bytes(data)))
        return (OK, [0, 0, 0], b"")

    # ---- signals --------------------------------------------------------------
    def signal(self, r):
        a1, a2, a3 = r["arg1"], r["arg2"], r["arg3"]
        if a1 == 1:            # point-to-point diagnostic (count etc.)
            op = (a2 >> 20) & 3
            state = (a2 >> 16) & 0xf
            app_mask = (a2 >> 8) & 0xff
            app_id = a2 & 0xff
            n = 0
            for chip in self.chips.values():
                if not chip.responsive:
                    continue
                for p in range(chip.num_cpus):
                    if chip.core_state[p] == state and \
                            (chip.core_app[p] & app_mask) == (app_id &
                                                              app_mask):
                        n += 1
            self.signals.append(("count", state, app_id, n))
            if op != 2:
                self.err("diagnostic signal op %d not modelled" % op)
            return (OK, [n, 0, 0], b"")
        sig = (a2 >> 16) & 0xff
        app_mask = (a2 >> 8) & 0xff
        app_id = a2 & 0xff
        self.signals.append(("signal", sig, app_id, a1))
        for chip in self.chips.values():
            for p in range(1, chip.num_cpus):
                if (chip.core_app[p] & app_mask) != (app_id & app_mask) or \
                        chip.core_state[p] == ST_IDLE:
                    continue
                if sig == 3 and chip.core_state[p] == ST_WAIT:   # start
                    chip.core_state[p] = ST_RUN
                elif sig == 2:                                   # stop
                    chip.core_state[p] = ST_IDLE
                    chip.core_app[p] = 0
                    chip.core_image[p] = None
                chip.sync_core(p)
            if sig == 2:
                for i, e in enumerate(chip.router):
                    if e is not None and i > 0 and e[3] == app_id:
                        chip.router[i] = None
                chip.sync_router()
        return (OK, [0, 0, 0], b"")

    # ---- allocation -------------------------------------------------------------
    def alloc(self, chip, r):
        a1, a2, a3 = r["arg1"], r["arg2"], r["arg3"]
        op = a1 & 0xff
        app_id = (a1 >> 8) & 0xff
        if op == 0:
            if self.alloc_fail and self.alloc_fail(self, chip, "sdram", a2):
                return (OK, [0, 0, 0], b"")
            if a2 > chip.sdram_free:
                return (OK, [0, 0, 0], b"")
            ptr = chip.heap_ptr
            chip.heap_ptr += (a2 + 3) & ~3
            chip.heap_ptr += 8
            chip.sdram_free -= a2
            chip.allocs[ptr] = (a2, app_id, a3)
            return (OK, [ptr, 0, 0], b"")
        if op == 1:
            if a2 not in chip.allocs:
                self.err("free of unallocated pointer %#x" % a2)
                return (OK, [0, 0, 0], b"")
            size = chip.allocs.pop(a2)[0]
            chip.sdram_free += size
            return (OK, [1, 0, 0], b"")
        if op == 3:
            if self.alloc_fail and self.alloc_fail(self, chip, "rtr", a2):
                return (OK, [0, 0, 0], b"")
            base = chip.alloc_router(a2, app_id)
            return (OK, [base, 0, 0], b"")
        if op == 5:
            for i, e in enumerate(chip.router):
                if e is not None and i > 0 and e[3] == app_id:
                    chip.router[i] = None
            chip.sync_router()
            return (OK, [1, 0, 0], b"")
        self.err("alloc operation %d not modelled" % op)
        return (OK, [0, 0, 0], b"")

    def rtr(self, chip, r):
        a1, a2, a3 = r["arg1"], r["arg2"], r["arg3"]
        op = a1 & 0xff
        app_id = (a1 >> 8) & 0xff
        count = a1 >> 16
        if op != 2:
            self.err("router operation %d not modelled" % op)
            return (OK, [0, 0, 0], b"")
        raw = chip.mem.read(a2, 16 * count)
        for i in range(count):
            nxt, free, route, key, mask = struct.unpack_from("<2H3I", raw,
                                                             16 * i)
            idx = a3 + nxt
            if not 0 < idx < 1024:
                self.err("router load outside the table (entry %d)" % idx)
                continue
            cur = chip.router[idx]
            if cur is None or cur[0] != "alloc" or cur[3] != app_id:
                self.err("router entry %d loaded but not allocated to "
                         "application %d" % (idx, app_id))
            if route >> 24:
                self.err("route word %#x has bits above the 24 routes"
                         % route)
            chip.router[idx] = (key, mask, route, app_id)
        chip.sync_router()
        return (OK, [1, 0, 0], b"")


def region_covers(region, x, y):
    """Documented meaning of a region word (see checks/c12.py)."""
    level = (region >> 16) & 3
    bx = (region >> 24) & 0xff
    by = (region >> 16) & 0xfc
    shift = 6 - 2 * level
    sub = 1 << shift
    if not (bx <= x < bx + 4 * sub and by <= y < by + 4 * sub):
        return False
    bit = ((x - bx) >> shift) + 4 * ((y - by) >> shift)
    return bool(region & (1 << bit))
