"""Runner: shards a check over a process pool, merges counters, confirms and
reports violations, matches known findings, writes evidence."""
import argparse
import hashlib
import importlib
import json
import multiprocessing
import os
import sys
import time
import traceback

VERIF = os.path.dirname(os.path.dirname(os.path.abspath(__file__)))
REPO = os.path.abspath(os.environ.get("RIG_VERIF_REPO", "/repo"))


def setup_paths():
    """Make `import rig` resolve to the tree under test and nothing else."""
    if sys.path[0] != REPO:
        sys.path.insert(0, REPO)
    if VERIF not in sys.path:
        sys.path.insert(1, VERIF)
    os.environ.setdefault("RIG_VERIF", "1")
    import rig
    where = os.path.abspath(rig.__file__)
    if not where.startswith(REPO + os.sep):
        raise SystemExit("harness error: rig imported from %s, not %s"
                         % (where, REPO))


def jdump(o):
    return json.dumps(o, sort_keys=True, default=repr)


def sig_key(sig):
    return jdump(sig)


class Acc(object):
    """Per-shard accumulator handed to a check's run_shard()."""

    MAX_PER_SIG = 1

    def __init__(self, seed=0, max_samples=3):
        self.evaluations = 0
        self.nontrivial = 0
        self.states = 0
        self.transitions = 0
        self.traces = 0
        self.outcomes = {}
        self.samples = []
        self.max_samples = max_samples
        self.violations = {}     # sig_key -> dict(sig, case, msg, count, size)
        self.extra = {}
        self.caps = []
        self.seed = seed
        self._sample_tick = 0

    def outcome(self, name, n=1):
        self.outcomes[name] = self.outcomes.get(name, 0) + n

    def sample(self, case):
        """Keep a few of the explored cases for the evidence file."""
        self._sample_tick += 1
        if len(self.samples) < self.max_samples:
            self.samples.append(case)
        elif (self._sample_tick * 2654435761 + self.seed) % 1009 == 0:
            self.samples[self._sample_tick % self.max_samples] = case

    def violation(self, sig, case, msg, size=0):
        k = sig_key(sig)
        v = self.violations.get(k)
        if v is None:
            self.violations[k] = dict(sig=sig, case=case, msg=msg, count=1,
                                      size=size)
        else:
            v["count"] += 1
            if size < v["size"]:
                v.update(case=case, msg=msg, size=size)

    def add(self, key, n=1):
        self.extra[key] = self.extra.get(key, 0) + n

    def cap(self, what):
        if what not in self.caps:
            self.caps.append(what)

    def export(self):
        return dict(evaluations=self.evaluations, nontrivial=self.nontrivial,
                    states=self.states, transitions=self.transitions,
                    traces=self.traces, outcomes=self.outcomes,
                    samples=self.samples, violations=self.violations,
                    extra=self.extra, caps=self.caps)


def _worker(job):
    modname, idx, params, tier, seed = job
    try:
        setup_paths()
        mod = importlib.import_module(modname)
        acc = Acc(seed=seed)
        t0 = time.time()
        run_shard_guarded(mod, params, tier, acc)
        out = acc.export()
        out["idx"] = idx
        out["wall"] = time.time() - t0
        return out
    except BaseException:
        return dict(idx=idx, error=traceback.format_exc(), params=params)


def run_shard_guarded(mod, params, tier, acc):
    """Run one shard.  An exception that escapes from the code under test
    (rig frames below the innermost harness frame) in a place where the
    harness expected success is an observation about rig, not a harness
    crash: it becomes a violation whose replay re-runs the shard."""
    try:
        mod.run_shard(params, tier, acc)
    except Exception as e:
        tb = traceback.extract_tb(sys.exc_info()[2])
        rigdir = os.path.join(REPO, "rig") + os.sep
        files = [os.path.abspath(f.filename) for f in tb]
        # frames below the innermost harness frame: the exception is rig's
        # if rig code is among them (it may have been raised by something rig
        # called - the standard library, numpy - rather than by rig itself)
        last_verif = max([i for i, f in enumerate(files)
                          if f.startswith(VERIF + os.sep)] or [-1])
        if not any(f.startswith(rigdir) for f in files[last_verif + 1:]):
            raise
        acc.violation(
            dict(kind="uncaught_exception_in_rig", exc=type(e).__name__),
            dict(_shard=params, _tier=tier),
            "rig raised %s: %s where the harness expected the call to "
            "succeed\n%s" % (type(e).__name__, e,
                             "".join(traceback.format_list(tb[-3:]))),
            size=0)


def load_findings():
    path = os.path.join(VERIF, "known_findings.json")
    if not os.path.exists(path):
        return []
    return json.load(open(path))


def match_finding(findings, pid, sig):
    for f in findings:
        if f.get("status") != "open" or f.get("property") != pid:
            continue
        m = f.get("match", {})
        if all(sig.get(k) == v for k, v in m.items()):
            return f
    return None


def write_replay(pid, modname, tier, v):
    d = os.path.join(VERIF, "replays", pid)
    os.makedirs(d, exist_ok=True)
    h = hashlib.sha1(jdump([v["sig"], v["case"]]).encode()).hexdigest()[:12]
    path = os.path.join(d, "%s.json" % h)
    with open(path, "w") as f:
        json.dump(dict(property=pid, check=modname, tier=tier, sig=v["sig"],
                       case=v["case"], msg=v["msg"],
                       how_to_replay="./check %s --replay %s" % (pid, path)),
                  f, indent=1, sort_keys=True, default=repr)
    return path


def replay_case(mod, case):
    """Run one recorded case without the explorer.  Returns violations dict."""
    acc = Acc()
    if isinstance(case, dict) and "_shard" in case:
        run_shard_guarded(mod, case["_shard"], case.get("_tier", "quick"),
                          acc)
        if case.get("_key"):
            # a history-dependent verdict confirmed by its shard
            return {k: v for k, v in acc.violations.items()
                    if k == case["_key"]}
        # only the escaped exception is the subject of this replay
        return {k: v for k, v in acc.violations.items()
                if v["sig"].get("kind") == "uncaught_exception_in_rig"}
    mod.replay(case, acc)
    return acc.violations


_RUN_TMP = None


def main(argv):
    """Every scratch file of a run lives in one private directory (TMPDIR for
    this process and its workers) that is removed when the run ends, however
    the workers leave."""
    global _RUN_TMP
    import shutil
    import tempfile
    _RUN_TMP = tempfile.mkdtemp(prefix="rigverif_run_")
    os.environ["TMPDIR"] = _RUN_TMP
    tempfile.tempdir = _RUN_TMP
    try:
        return _main(argv)
    finally:
        shutil.rmtree(_RUN_TMP, True)


def _main(argv):
    ap = argparse.ArgumentParser()
    ap.add_argument("prop")
    ap.add_argument("--tier", default=os.environ.get("VERIF_TIER") or "quick",
                    choices=["quick", "thorough"])
    ap.add_argument("--replay")
    ap.add_argument("--jobs", type=int,
                    default=int(os.environ.get("VERIF_JOBS", "0")) or
                    min(16, os.cpu_count() or 1))
    ap.add_argument("--only", help="substring filter on shard names (debug; "
                    "evidence marked partial)")
    args = ap.parse_args(argv)
    pid = args.prop.upper()
    seed = int(os.environ.get("VERIF_SEED", "0") or 0)
    setup_paths()
    modname = "checks.%s" % pid.lower()
    mod = importlib.import_module(modname)
    if hasattr(mod, "selftest"):
        try:
            mod.selftest()
        except Exception:
            traceback.print_exc()
            print("HARNESS-ERROR: oracle self-test failed for", pid)
            return 2

    if args.replay:
        rec = json.load(open(args.replay))
        vs = replay_case(mod, rec["case"])
        if not vs:
            print("replay: no violation reproduced for %s" % pid)
            return 0
        findings = load_findings()
        rc = 0
        for v in vs.values():
            f = match_finding(findings, pid, v["sig"])
            if f:
                print("KNOWN-FINDING: property=%s %s" % (pid, f["what"]))
            else:
                print("VIOLATION property=%s replay=%s" % (pid, args.replay))
                rc = 1
            print("  sig:", jdump(v["sig"]))
            print("  " + v["msg"].replace("\n", "\n  "))
        return rc

    t0 = time.time()
    shards = list(mod.shards(args.tier))
    if args.only:
        shards = [s for s in shards if args.only in jdump(s)]
    order = list(range(len(shards)))
    if seed:
        # the seed only rotates the processing order; verdicts must not depend
        # on it
        k = seed % max(1, len(order))
        order = order[k:] + order[:k]
    jobs = [(modname, i, shards[i], args.tier, seed) for i in order]
    results = [None] * len(shards)
    if args.jobs <= 1 or len(jobs) <= 1:
        it = map(_worker, jobs)
        pool = None
    else:
        ctx = multiprocessing.get_context("fork")
        pool = ctx.Pool(min(args.jobs, len(jobs)))
        import signal

        def _term(signum, frame):
            # a killed run must not leave orphaned workers behind; the
            # workers are killed directly (Pool.terminate() can dead-lock
            # when called from a signal handler)
            for w in list(getattr(pool, "_pool", []) or []):
                try:
                    os.kill(w.pid, signal.SIGKILL)
                except Exception:
                    pass
            if _RUN_TMP:
                import shutil
                shutil.rmtree(_RUN_TMP, True)
            os._exit(143)
        signal.signal(signal.SIGTERM, _term)
        it = pool.imap_unordered(_worker, jobs)
    errors = []
    for r in it:
        if "error" in r:
            errors.append(r)
        results[r["idx"]] = r
    if pool is not None:
        pool.close()
        pool.join()
    if errors:
        for e in errors[:3]:
            print("HARNESS-ERROR in shard %r:\n%s" % (e["params"], e["error"]))
        return 2

    tot = Acc(seed=seed, max_samples=6)
    viol = {}
    for r in results:
        tot.evaluations += r["evaluations"]
        tot.nontrivial += r["nontrivial"]
        tot.states += r["states"]
        tot.transitions += r["transitions"]
        tot.traces += r["traces"]
        for k, n in r["outcomes"].items():
            tot.outcome(k, n)
        for k, n in r["extra"].items():
            if isinstance(n, (int, float)):
                tot.add(k, n)
            else:
                tot.extra[k] = n
        for c in r["caps"]:
            tot.cap(c)
        for k, v in r["violations"].items():
            v = dict(v, shard=r["idx"])
            if k not in viol:
                viol[k] = dict(v)
            else:
                viol[k]["count"] += v["count"]
                if v["size"] < viol[k]["size"]:
                    viol[k].update(case=v["case"], msg=v["msg"],
                                   size=v["size"])
    # samples: rotate by seed over shards
    pool_samples = [s for r in results for s in r["samples"]]
    if pool_samples:
        step = max(1, len(pool_samples) // 6)
        start = seed % len(pool_samples)
        tot.samples = [pool_samples[(start + i * step) % len(pool_samples)]
                       for i in range(min(6, len(pool_samples)))]

    findings = load_findings()
    rc = 0
    known_lines = {}
    new = []
    unreproduced = []
    for k in sorted(viol, key=lambda k: (viol[k]["size"], k)):
        v = viol[k]
        # confirm by re-execution from scratch before believing it
        again = replay_case(mod, v["case"])
        if k not in again and isinstance(v.get("shard"), int) and not (
                isinstance(v["case"], dict) and "_shard" in v["case"]):
            # not reproducible as a single case: the footprint of state the
            # library kept from earlier cases of the same shard.  Re-run the
            # whole shard (this process has not run any case yet); if the
            # verdict comes back it is a confirmed, history-dependent
            # violation whose replay is the shard.
            acc2 = Acc()
            try:
                run_shard_guarded(mod, shards[v["shard"]], args.tier, acc2)
            except BaseException:
                pass
            if k in acc2.violations:
                v = dict(v, case=dict(_shard=shards[v["shard"]],
                                      _tier=args.tier, _key=k,
                                      single_case=v["case"]),
                         msg=v["msg"] + "\n  (history-dependent: reproduced "
                         "by re-running its shard, not by the case alone)")
                viol[k] = v
                again = {k: v}
        if k not in again:
            unreproduced.append((k, v, sorted(again)))
            continue
        f = match_finding(findings, pid, v["sig"])
        if f is not None:
            known_lines.setdefault(f["what"], 0)
            known_lines[f["what"]] += v["count"]
            write_replay(pid, modname, args.tier, v)
        else:
            new.append(v)
    if unreproduced and not new:
        # nothing else to report: a verdict that cannot be re-executed is not
        # believed
        k, v, again = unreproduced[0]
        print("HARNESS-ERROR: violation not reproduced on re-execution "
              "(nondeterminism not owned): %s\n  first: %s\n  again: %s"
              % (k, v["msg"], again))
        return 2
    for k, v, again in unreproduced[:3]:
        # reported next to confirmed violations: typically the footprint of
        # state the library kept from an earlier case in the same process
        print("NOTE: not reproduced when re-executed alone: %s | %s"
              % (k, v["msg"].split("\n")[0][:160]))
    for what, n in sorted(known_lines.items()):
        print("KNOWN-FINDING: property=%s %s (occurrences this run: %d)"
              % (pid, what, n))
    for v in new[:5]:
        path = write_replay(pid, modname, args.tier, v)
        print("VIOLATION property=%s replay=%s" % (pid, path))
        print("  sig:", jdump(v["sig"]))
        print("  " + v["msg"].replace("\n", "\n  "))
        print("  occurrences:", v["count"])
        rc = 1
    if len(new) > 5:
        print("  ... and %d further distinct violation signatures:"
              % (len(new) - 5))
        for v in new[5:40]:
            print("    sig: %s | %s" % (jdump(v["sig"]),
                                       v["msg"].split("\n")[0][:160]))

    wall = time.time() - t0
    if os.environ.get("VERIF_DEBUG"):
        slow = sorted(results, key=lambda r: -r["wall"])[:6]
        for r in slow:
            print("  slow shard %.1fs %s" % (r["wall"], jdump(shards[r["idx"]])))
    level = getattr(mod, "LEVEL", "exploration")
    cov = dict(
        evaluations=tot.evaluations,
        distinct_nontrivial=tot.nontrivial,
        rule=mod.RULE,
        samples=tot.samples,
        exhaustive=(not tot.caps and not args.only),
        caps_hit=tot.caps,
        distinct_outcomes=len(tot.outcomes),
        outcomes=dict(sorted(tot.outcomes.items())[:60]),
        shards=len(shards),
        scope=mod.scope(args.tier) if hasattr(mod, "scope") else None,
        counters=tot.extra,
        known_finding_occurrences=known_lines,
    )
    if level == "model_checking":
        cov.update(states=tot.states, transitions=tot.transitions,
                   traces_validated_against_impl=tot.traces or tot.evaluations)
    elif tot.states:
        cov.update(states=tot.states, transitions=tot.transitions)
    ev = dict(property_id=pid, tier=args.tier, seed=seed, level=level,
              coverage=cov, assumptions=list(getattr(mod, "ASSUMPTIONS", [])),
              wall_s=round(wall, 2), violations=len(new),
              technique=getattr(mod, "TECHNIQUE", ""),
              repo=REPO)
    # runs against a scratch tree (seeded changes) must not overwrite the
    # evidence of the real tree
    evdir = "evidence" if (REPO == "/repo" and not args.only) else \
        "scratch_evidence"
    os.makedirs(os.path.join(VERIF, evdir), exist_ok=True)
    tmp = os.path.join(VERIF, evdir, ".%s.tmp" % pid)
    with open(tmp, "w") as f:
        json.dump(ev, f, indent=1, sort_keys=True, default=repr)
    os.replace(tmp, os.path.join(VERIF, evdir, "%s.json" % pid))
    print("%s %s: evaluations=%d nontrivial=%d states=%d transitions=%d "
          "outcomes=%d shards=%d caps=%s violations=%d known=%d wall=%.1fs"
          % (pid, args.tier, tot.evaluations, tot.nontrivial, tot.states,
             tot.transitions, len(tot.outcomes), len(shards), tot.caps,
             len(new), len(known_lines), wall))
    return rc
