"""E1: stateless, deviation-bounded choice-point explorer, and E5: owned
randomness drawing from it.

An execution is a function of its choice sequence.  `explore(run, bound)`
enumerates every execution whose choice sequence departs from the default
answer at most `bound` times (bound=None: every execution).  Prefixes are
replayed on freshly built objects; a replay that asks for a choice of a
different arity/label than recorded is a hard error (ReplayDivergence)."""
import random as _random


class ReplayDivergence(Exception):
    pass


class BudgetExceeded(Exception):
    """Raised inside an execution that asked for more choices than allowed
    (livelock / non-termination detector)."""


class Chooser(object):
    def __init__(self, prefix=(), budget=None, expect=None):
        self.prefix = list(prefix)
        self.choices = []
        self.arity = []
        self.defaults = []
        self.labels = []
        self.budget = budget
        # expect: optional list of (arity, label) recorded when the prefix was
        # first produced, to detect divergence
        self.expect = expect

    def choose(self, n, label="", default=0):
        i = len(self.choices)
        if self.budget is not None and i >= self.budget:
            raise BudgetExceeded("more than %d choice points" % self.budget)
        if n <= 0:
            raise ReplayDivergence("choice with no options: %s" % label)
        if i < len(self.prefix):
            c = self.prefix[i]
            if not 0 <= c < n:
                raise ReplayDivergence(
                    "recorded choice %d out of range %d at point %d (%s)"
                    % (c, n, i, label))
            if self.expect is not None and i < len(self.expect):
                if self.expect[i] != (n, label):
                    raise ReplayDivergence(
                        "point %d was %r, now %r" % (i, self.expect[i],
                                                     (n, label)))
        else:
            c = default
        self.choices.append(c)
        self.arity.append(n)
        self.defaults.append(default)
        self.labels.append(label)
        return c

    def deviations(self):
        return sum(1 for c, d in zip(self.choices, self.defaults) if c != d)


def explore(run, bound=None, budget=None, max_executions=None, on_cap=None):
    """Depth-first enumeration.  `run(chooser)` performs one execution on
    fresh objects (and does its own checking).  Yields nothing; returns the
    number of executions.  Deviation bound applies to choices != default."""
    stack = [([], 0, None)]
    n_exec = 0
    while stack:
        prefix, devs, expect = stack.pop()
        ch = Chooser(prefix, budget=budget, expect=expect)
        run(ch)
        n_exec += 1
        if max_executions is not None and n_exec >= max_executions:
            if stack or len(ch.choices) > len(prefix):
                if on_cap:
                    on_cap()
            break
        if bound is not None and devs + 1 > bound:
            continue
        exp = list(zip(ch.arity, ch.labels))
        # children: deviate at one later point (all later points took default)
        for i in range(len(ch.choices) - 1, len(prefix) - 1, -1):
            d = ch.defaults[i]
            for alt in range(ch.arity[i] - 1, -1, -1):
                if alt != d:
                    stack.append((ch.choices[:i] + [alt], devs + 1,
                                  exp[:i + 1]))
    return n_exec


class FakeRandom(object):
    """Stand-in for the `random` module / a random.Random instance whose every
    draw is a choice point.  The default answer of each draw comes from a
    fixed fair pseudo-random stream (independent of VERIF_SEED), so that zero
    deviations is one honest random run and rejection loops terminate."""

    def __init__(self, chooser, menu=3, stream_seed=0):
        self.ch = chooser
        self.menu = menu
        self.stream = _random.Random(stream_seed)
        self.draws = 0

    def _pick(self, n, label):
        self.draws += 1
        d = self.stream.randrange(n) if n > 1 else 0
        return self.ch.choose(n, label, default=d)

    # rig uses random() only as additive noise < 1 on integer keys and as an
    # acceptance threshold; a small menu of distinct values in [0, 1) is the
    # alphabet.
    def random(self):
        i = self._pick(self.menu, "random")
        return (i + 0.25) / self.menu

    def randint(self, a, b):
        return a + self._pick(b - a + 1, "randint")

    def randrange(self, a, b=None):
        if b is None:
            a, b = 0, a
        return a + self._pick(b - a, "randrange")

    def choice(self, seq):
        return seq[self._pick(len(seq), "choice")]

    def shuffle(self, lst):
        # Fisher-Yates with owned draws
        for i in range(len(lst) - 1, 0, -1):
            j = self._pick(i + 1, "shuffle")
            lst[i], lst[j] = lst[j], lst[i]

    def sample(self, population, k):
        pop = list(population)
        out = []
        for _ in range(k):
            out.append(pop.pop(self._pick(len(pop), "sample")))
        return out

    def getrandbits(self, k):
        # only used to seed the C kernel: a small alphabet of seeds
        return self._pick(8, "getrandbits")

    def uniform(self, a, b):
        return a + (b - a) * self.random()

    def seed(self, *a, **k):
        pass


class SeqRandom(object):
    """Random source that replays an explicit list of answers (for product
    enumeration where the number of draws is known)."""

    def __init__(self, values):
        self.values = list(values)
        self.i = 0

    def random(self):
        v = self.values[self.i]
        self.i += 1
        return v
