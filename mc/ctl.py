"""Glue: a real MachineController talking to a SimMachine over the virtual
network (no source change in rig: module attributes are rebound)."""
from mc.fakenet import Net, Patched
from mc.sim import SimMachine


_STRUCTS = {}


class Session(object):
    def __init__(self, sim, budget=200000, n_tries=5, timeout=0.5,
                 window=None, **mc_kwargs):
        self.sim = sim
        self.net = Net(sim, budget=budget)
        self.kw = dict(n_tries=n_tries, timeout=timeout)
        self.kw.update(mc_kwargs)
        self.window = window

    def __enter__(self):
        from rig.machine_control import scp_connection as sc
        from rig.machine_control import machine_controller as mcm
        from rig.machine_control import boot
        self.patch = Patched(self.net, [sc, mcm, boot])
        self.patch.__enter__()
        self.sim.sync()
        if "structs" not in self.kw:
            # parse the struct file once per process (with rig's own reader)
            key = mcm.__file__
            if key not in _STRUCTS:
                _STRUCTS[key] = mcm.MachineController("host").structs
            import copy
            self.kw["structs"] = _STRUCTS[key]
        self.mc = mcm.MachineController("host", **self.kw)
        if self.window is not None:
            self.mc._window_size = self.window
        return self

    def __exit__(self, *a):
        self.patch.__exit__(*a)
        return False
