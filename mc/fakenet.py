"""E4 (network part): virtual UDP network, sockets, select and clock.

The harness assigns `FakeSocketModule`, `FakeSelectModule`, `FakeTimeModule`
objects to the module attributes `socket`, `select`, `time` of the rig modules
under test for the duration of one execution.  Time is virtual (integer
milliseconds) and only advances inside select()/sleep(); datagram fates are
decided by a responder object when a datagram is sent."""
import collections
import heapq


class Livelock(Exception):
    """The step budget of the virtual environment was exhausted."""


class Net(object):
    TICK = 1            # ms added by a zero-timeout poll with nothing to do
    LATENCY = 10        # ms, prompt reply

    def __init__(self, responder, budget=2000):
        self.now = 0                     # virtual ms
        self.responder = responder       # f(sock, data, net) -> [(delay_ms, bytes, meta)]
        self.inflight = []               # heap (arrival, n, sock, data, meta)
        self.n = 0
        self.budget = budget
        self.steps = 0
        self.log = []                    # events for monitors
        self.sockets = []
        self.on_select = None

    # -- clock ------------------------------------------------------------
    def time(self):
        return self.now / 1000.0

    def sleep(self, seconds):
        self._step()
        self.now += max(0, int(round(seconds * 1000)))

    def _step(self):
        self.steps += 1
        if self.steps > self.budget:
            raise Livelock("more than %d environment steps" % self.budget)

    # -- datagrams ----------------------------------------------------------
    def send(self, sock, data, addr=None):
        self._step()
        data = bytes(data)
        self.log.append(("send", self.now, sock, data))
        for delay, reply, meta in self.responder(sock, data, self):
            self.push(sock, delay, reply, meta)
        return len(data)

    def push(self, sock, delay, reply, meta=None):
        self.n += 1
        heapq.heappush(self.inflight, (self.now + delay, self.n, sock, reply,
                                       meta))

    def _deliver_due(self):
        while self.inflight and self.inflight[0][0] <= self.now:
            arrival, n, sock, data, meta = heapq.heappop(self.inflight)
            sock.arrived.append((data, meta))
            self.log.append(("arrive", self.now, sock, data, meta))

    def select(self, rlist, wlist, xlist, timeout=None):
        self._step()
        if self.on_select:
            self.on_select(self)
        if timeout is not None and timeout < 0:
            # as the real select.select does
            raise ValueError("timeout must be non-negative")
        ms = None if timeout is None else int(round(timeout * 1000))
        self._deliver_due()
        ready = [s for s in rlist if s.arrived]
        if ready:
            return ready, [], []
        if ms is not None and ms <= 0:
            self.now += self.TICK
            self._deliver_due()
            return [s for s in rlist if s.arrived], [], []
        # earliest arrival for one of the listed sockets
        t = None
        for arrival, n, sock, data, meta in self.inflight:
            if sock in rlist and (t is None or arrival < t):
                t = arrival
        if t is not None and (ms is None or t <= self.now + ms):
            self.now = max(self.now, t)
            self._deliver_due()
            return [s for s in rlist if s.arrived], [], []
        if ms is None:
            raise Livelock("select() without timeout and nothing in flight")
        self.now += ms
        self._deliver_due()
        return [s for s in rlist if s.arrived], [], []


class FakeSocket(object):
    def __init__(self, net, family=None, type_=None, proto=None):
        self.net = net
        self.arrived = collections.deque()
        self.addr = None
        self.blocking = True
        self.timeout = None
        self.closed = False
        self.opts = []
        self.bound = None
        net.sockets.append(self)

    def connect(self, addr):
        self.addr = addr

    def bind(self, addr):
        self.bound = addr

    def setblocking(self, flag):
        self.blocking = bool(flag)

    def settimeout(self, t):
        self.timeout = t

    def setsockopt(self, *a):
        self.opts.append(a)

    def send(self, data):
        return self.net.send(self, data)

    def sendto(self, data, addr):
        return self.net.send(self, data, addr)

    def recv(self, n):
        if not self.arrived:
            if self.blocking and self.timeout is not None:
                # blocking receive with timeout: wait on the virtual clock
                r, _, _ = self.net.select([self], [], [], self.timeout)
                if not r:
                    import socket as _s
                    raise _s.timeout("timed out")
            else:
                raise BlockingIOError(11, "no datagram")
        data, meta = self.arrived.popleft()
        self.net.log.append(("recv", self.net.now, self, data, meta))
        return data[:n]

    def recvfrom(self, n):
        d = self.recv(n)
        return d, self.addr

    def getsockname(self):
        return ("127.0.0.1", 54321)

    def close(self):
        self.closed = True

    def fileno(self):
        return 99


class FakeSocketModule(object):
    """Stands in for the `socket` module inside rig modules."""
    AF_INET = 2
    SOCK_DGRAM = 2
    SOL_SOCKET = 1
    SO_BROADCAST = 6
    SO_REUSEADDR = 2
    IPPROTO_UDP = 17
    error = OSError

    def __init__(self, net):
        import socket as _s
        self.net = net
        self.timeout = _s.timeout
        self.gaierror = _s.gaierror
        self.inet_aton = _s.inet_aton
        self.inet_ntoa = _s.inet_ntoa

    def socket(self, *a, **k):
        return FakeSocket(self.net, *a)

    def gethostbyname(self, host):
        return host


class FakeSelectModule(object):
    def __init__(self, net):
        self.net = net

    def select(self, r, w, x, timeout=None):
        return self.net.select(r, w, x, timeout)


class FakeTimeModule(object):
    def __init__(self, net):
        self.net = net

    def time(self):
        return self.net.time()

    def sleep(self, s):
        self.net.sleep(s)


class Patched(object):
    """Context manager assigning fake modules to rig module attributes."""

    def __init__(self, net, modules, names=("socket", "select", "time")):
        self.net = net
        self.modules = modules
        self.names = names
        self.saved = []

    def __enter__(self):
        fakes = dict(socket=FakeSocketModule(self.net),
                     select=FakeSelectModule(self.net),
                     time=FakeTimeModule(self.net))
        for m in self.modules:
            for n in self.names:
                if hasattr(m, n):
                    self.saved.append((m, n, getattr(m, n)))
                    setattr(m, n, fakes[n])
        return self.net

    def __exit__(self, *a):
        for m, n, v in reversed(self.saved):
            setattr(m, n, v)
        self.saved = []
        return False
