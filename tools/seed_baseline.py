#!/venv/bin/python
"""Baseline-only confirmation of a seeded change.

    tools/seed_baseline.py seeded/C05w5_1

Applies the seed's patch in a scratch worktree of /repo HEAD (removed
afterwards), runs the pinned baseline suite against it
(tools/baseline_check.py) and records the verdict in the seed's meta.json
("verified" -> "baseline_ok").  Used when tools/seed_verify.py was run with
--skip-baseline.
"""
import json
import os
import subprocess
import sys

VERIF = os.path.dirname(os.path.dirname(os.path.abspath(__file__)))


def main():
    seed = os.path.abspath(sys.argv[1])
    name = os.path.basename(seed.rstrip("/"))
    wt = "/tmp/sb_%s_%d" % (name, os.getpid())
    subprocess.check_call(["git", "-C", "/repo", "worktree", "add", "-q",
                           "--detach", wt, "HEAD"])
    try:
        rc = subprocess.call(["git", "apply",
                              os.path.join(seed, "patch.diff")], cwd=wt)
        if rc:
            print("%s: patch does not apply" % name)
            return 2
        p = subprocess.run([os.path.join(VERIF, "tools", "baseline_check.py"),
                            wt], stdout=subprocess.PIPE,
                           stderr=subprocess.STDOUT, text=True)
        ok = p.returncode == 0
        tail = p.stdout.strip().splitlines()[-1:] if p.stdout else []
        mp = os.path.join(seed, "meta.json")
        meta = json.load(open(mp))
        v = meta.setdefault("verified", {})
        v["baseline_ok"] = ok
        v["baseline_tail"] = tail
        if "demo_clean_exit" in v and "demo_mutated_exit" in v:
            v["valid"] = bool(ok and v["demo_clean_exit"] == 0 and
                              v["demo_mutated_exit"] != 0)
        json.dump(meta, open(mp, "w"), indent=1, sort_keys=True)
        print("%s: baseline_ok=%s %s" % (name, ok, " ".join(tail)))
        return 0 if ok else 1
    finally:
        subprocess.call(["git", "-C", "/repo", "worktree", "remove",
                         "--force", wt])


if __name__ == "__main__":
    sys.exit(main())
