#!/usr/bin/env python3-vt
"""Regenerate /verif/MANIFEST.json from the table below and validate it."""
import importlib, json, os, sys
VERIF = os.path.dirname(os.path.dirname(os.path.abspath(__file__)))
sys.path.insert(0, VERIF)

# property -> (category, text, note, design_ref)
CLAIMED = {}
NOT_APPLICABLE = {}


def claim(pid, category, text, note, ref):
    CLAIMED[pid] = (category, text, note, ref)


exec(open(os.path.join(VERIF, "tools", "manifest_table.py")).read())

props = [json.loads(l)["id"] for l in open(os.path.join(VERIF, "properties.jsonl"))]
checks = []
for pid in props:
    if pid not in CLAIMED:
        continue
    cat, text, note, ref = CLAIMED[pid]
    src = open(os.path.join(VERIF, "checks", pid.lower() + ".py")).read()
    tech = ""
    ns = {}
    for line in src.split("\n"):
        pass
    import re
    m = re.search(r'^TECHNIQUE = \(?((?:\s*"[^"]*"\s*)+)\)?', src, re.M)
    if m:
        tech = "".join(re.findall(r'"([^"]*)"', m.group(1)))
    checks.append(dict(
        property_id=pid,
        quick_cmd="./check %s --tier quick" % pid,
        thorough_cmd="./check %s --tier thorough" % pid,
        evidence_file="/verif/evidence/%s.json" % pid,
        replay_cmd_template="./check %s --replay {path}" % pid,
        engine="mc",
        level_claimed=dict(category=cat, text=text, design_ref=ref),
        level_note=note,
        technique=tech))
na = [dict(property_id=p, reason=NOT_APPLICABLE.get(
        p, "check not built yet in this session; no claim is made"))
      for p in props if p not in CLAIMED]
man = dict(
    version=1,
    setup_cmd="/venv/bin/python -B -W ignore tools/setup_check.py",
    hooks=dict(guard="RIG_VERIF",
               enable="no source hooks: the harness rebinds module attributes "
                      "(socket/select/time/random) of the tree under test at "
                      "run time; RIG_VERIF=1 is exported but read by nothing in /repo",
               baseline_off_cmd="cd /repo && /venv/bin/python -m pytest -ra -q "
                                "-p no:cacheprovider --timeout=900 "
                                "--continue-on-collection-errors",
               source_commits=[], add_only=True),
    engines=[dict(name="mc", path="/verif/mc",
                  serves_properties=sorted(CLAIMED),
                  kind_free_text="hand-written explicit-state / stateless "
                  "deviation-bounded explorer and bounded-exhaustive enumerator "
                  "driving the real rig code (Python); simulated SpiNNaker "
                  "machine as environment")],
    checks=checks,
    not_applicable=na,
    notes="See DESIGN.md. ./check <id> --tier quick|thorough; replays under "
          "/verif/replays; known findings in /verif/known_findings.json.")
import jsonschema
jsonschema.validate(man, json.load(open("/root/.vp/MANIFEST.schema.json")))
json.dump(man, open(os.path.join(VERIF, "MANIFEST.json"), "w"), indent=1)
print("MANIFEST.json: %d checks, %d not_applicable" % (len(checks), len(na)))
