#!/venv/bin/python
"""Print the prompt given to a mutation-seeding sub-agent for one property.
The agent gets only the property text and a scratch worktree, nothing from /verif."""
import json, sys
pid = sys.argv[1]; wt = sys.argv[2]; n = int(sys.argv[3]) if len(sys.argv) > 3 else 3
for l in open('/verif/properties.jsonl'):
    p = json.loads(l)
    if p['id'] == pid:
        break
import glob, os
used = []
for d in sorted(glob.glob('/verif/seeded/%s*' % pid)):
    try:
        m = json.load(open(os.path.join(d, 'meta.json')))
        used.append("  - " + " ".join(m.get('summary', '').split())[:260])
    except Exception:
        pass
USED = ("\n\nIDEAS ALREADY USED by earlier rounds (do NOT repeat these or close variants; find different mechanisms, "
        "different functions, different parameters - e.g. rarely used parameter values, state that survives between calls, "
        "object identity/aliasing, interactions of two features, boundary sizes, error paths followed by further use):\n"
        + "\n".join(used) + "\n") if used else ""
TAG = sys.argv[4] if len(sys.argv) > 4 else ""
print(f"""You are helping to test a verification framework by seeding realistic bugs into a Python library.

The library is mundya/rig (a Python toolkit for SpiNNaker: SCP/SDP machine control client, place-and-route algorithms, routing-table minimisation, bit-field key allocation, torus geometry). You have your OWN scratch git worktree of it at {wt} . Work ONLY inside {wt} (never touch /repo or /verif, never read anything under /verif, never commit, never push). Python is /venv/bin/python (3.12). When you run python or pytest, cd into {wt} first so that `import rig` picks up your worktree (check `rig.__file__`).

Here is a semantic property of the library that should always hold:

TITLE: {p['title']}

STATEMENT: {p['statement']}

QUANTIFIED OVER: {p['quantifier']['text']}

Relevant source files: {', '.join(p['anchors']['files'])}

YOUR TASK: produce {n} DIFFERENT, independent source changes (avoid the most obvious single-token slips such as one flipped comparison in the main loop: look for mistakes in less-travelled branches, state carried between calls or loop iterations, interactions between two functions, boundary arithmetic, and argument or cache aliasing) ("mutations") to the library (files under {wt}/rig/ only), each of which
  (a) BREAKS the property above (for some input / fault sequence / call history),
  (b) still imports and compiles, and
  (c) keeps the repository's existing pinned test suite green: run `/venv/bin/python /tmp/baseline_check.py {wt}` — it must print missing_from_stable=0 and exit 0 (it takes ~20 s). 
Prefer changes that look like plausible programmer mistakes or plausible "optimisations/refactorings" (off-by-one, wrong comparison, dropped case, stale state, cursor advanced at the wrong time, shared mutable state, missing copy, swapped arguments, a condition that is right except in a corner), in the code that the property depends on. IMPORTANT: prefer changes that need something SPECIFIC to manifest — a particular fault sequence, a multi-step sequence of operations, an unusual input shape/corner case, or two cooperating sites that each look fine alone — NOT ones that every ordinary use would expose at once. Each of the {n} mutations should be in a different function/mechanism if possible. Each should be small (1-15 changed lines).

For EACH mutation k = 1..{n}, create the directory {wt}/_seed/{pid}{TAG}_k/ containing:
  - patch.diff : output of `git diff -- rig` (relative to HEAD, applying cleanly with `git apply` at the worktree root) with ONLY that mutation applied;
  - demo.py : a small standalone program (run as `cd <tree> && /venv/bin/python _seed/{pid}{TAG}_k/demo.py` or with PYTHONPATH=<tree>) that exits 0 on the unmodified tree and exits non-zero (assertion failure) with the mutation applied, demonstrating the property violation using only the library's public behaviour. It may fake sockets etc. with unittest.mock if needed. It must be deterministic.
  - meta.json : {{"property": "{pid}", "summary": "...one sentence what was changed...", "needs": "...what specific input/sequence/fault is needed for it to manifest...", "files": [...]}}
After saving a mutation's files, REVERT the source (`git -C {wt} checkout -- rig`) before starting the next, so each patch.diff is independent. Verify for each: (1) on clean tree demo.py exits 0; (2) after `git apply _seed/{pid}{TAG}_k/patch.diff`, demo.py exits non-zero AND /tmp/baseline_check.py {wt} still exits 0; then revert. Leave the worktree clean (except the untracked _seed directory) when done.

{USED}
Note: some parts of this old library fail on Python 3.12 for unrelated reasons (e.g. `collections.Iterable`, `random.sample` on a set); avoid relying on those code paths in demos, or work around them.

Final answer: for each mutation, one short paragraph: what you changed, why it breaks the property, what is needed to manifest it, and confirmation of the three verifications above.""")
