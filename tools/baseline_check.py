#!/venv/bin/python
"""Run the repository's pinned baseline command (guard OFF) against a tree and
compare with /root/.vp/BASELINE.json's stable_pass list.

usage: baseline_check.py [repo_dir]    (default /repo)
exit 0 iff every stable_pass test passed.
"""
import json, os, subprocess, sys, tempfile
import xml.etree.ElementTree as ET

repo = sys.argv[1] if len(sys.argv) > 1 else "/repo"
base = json.load(open("/root/.vp/BASELINE.json"))
fd, junit = tempfile.mkstemp(suffix=".xml", prefix="rigbase")
os.close(fd)
env = dict(os.environ)
for k in ("RIG_VERIF",):
    env.pop(k, None)
env["PYTHONDONTWRITEBYTECODE"] = "1"
cmd = ["/venv/bin/python", "-m", "pytest", "-ra", "-q", "-p", "no:cacheprovider",
       "--timeout=900", "--continue-on-collection-errors", "--junitxml=" + junit]
p = subprocess.run(cmd, cwd=repo, env=env, stdout=subprocess.PIPE,
                   stderr=subprocess.STDOUT, text=True)
tail = p.stdout.strip().splitlines()[-1:]
passed = set()
failed = set()
for tc in ET.parse(junit).getroot().iter("testcase"):
    name = "%s::%s" % (tc.get("classname"), tc.get("name"))
    bad = any(c.tag in ("failure", "error", "skipped") for c in tc)
    (failed if bad else passed).add(name)
os.unlink(junit)
stable = set(base["stable_pass"])
missing = sorted(stable - passed)
print("pytest:", tail)
print("stable_pass=%d passed_now=%d failed_now=%d missing_from_stable=%d"
      % (len(stable), len(passed), len(failed), len(missing)))
for m in missing[:40]:
    print("  MISSING", m)
sys.exit(1 if missing else 0)
