#!/bin/bash
# tools/wave_collect.sh <wave> <pid>: copy the seeds a sub-agent left in
# /tmp/<wave>_<pid>/_seed into seeded/, remove the scratch worktree, verify
# each seed (demo, baseline, the property's quick check).
wave=$1; pid=$2; wt=/tmp/${wave}_$pid
cd "$(dirname "$0")/.."
for d in $wt/_seed/${pid}${wave}_*; do
  [ -f $d/patch.diff ] || continue
  n=$(basename $d); rm -rf seeded/$n; mkdir -p seeded/$n
  cp $d/patch.diff $d/meta.json seeded/$n/; cp $d/*.py seeded/$n/ 2>/dev/null
done
git -C /repo worktree remove --force $wt
for d in seeded/${pid}${wave}_*; do
  tools/seed_verify.py $d 2>&1 | tail -6
done
