claim("C11", "exploration",
      "Complete enumeration of every torus size up to 8x8 (thorough 12x12), every source/destination pair, "
      "several three-axis representations and every outcome of the random tie-breaks, against BFS distance on "
      "the explicit hexagonal graph; finite tables (links, routes, hexagon rings) checked completely.",
      "BFS oracle in /verif; random() is used by rig only as additive noise (menu of 3 values reaches every order); "
      "sizes beyond the bound are not covered.", "DESIGN.md section 4, C11")
