claim("C11", "exploration",
      "Complete enumeration of every torus size up to 8x8 (thorough 12x12), every source/destination pair, "
      "several three-axis representations and every outcome of the random tie-breaks, against BFS distance on "
      "the explicit hexagonal graph; finite tables (links, routes, hexagon rings) checked completely; call histories across tori "
      "sharing a side and abandoned hexagon generators (state kept between calls).",
      "BFS oracle in /verif; random() is used by rig only as additive noise (menu of 3 values reaches every order); "
      "sizes beyond the bound are not covered.", "DESIGN.md section 4, C11")
claim("C05", "exploration",
      "Every reservation layout (<=2, thorough <=3 disjoint ranges, global or per-chip) x alignment x vertex tuple on one chip, and "
      "two-chip/two-resource/exception-chip combinations with all placements and dict orders, run through the real allocator and "
      "judged clause by clause (size, range, alignment, reservation and vertex disjointness, only documented error, completeness); "
      "three chips with more / less than the machine-wide amount and reservations anywhere in the larger range; two-call histories.",
      "Scope bounded to capacity 8 and <=3 vertices; reservations are pairwise disjoint (a global one may lie beyond the end of a smaller chip).",
      "DESIGN.md section 4, C05")
claim("C04", "exploration",
      "Every orthogonal full-mask table over 3 key bits (4 entry kinds per key, both orders), key subsets over 4 bits, every "
      "generality-ordered list of <=3 (thorough <=4) ternary-pattern entries, the empty table, two-call histories, multi-chip tables "
      "with differing sources, 604800 merge-group-with-blockers tables, every-target families, 16 source/route shapes (core sources) "
      "and partial merges under every target are pushed "
      "through each real minimiser and the method chain with targets None/0/1/len-1/len/len+1; every key of the key space is looked "
      "up before and after (first match + default routing), results are re-minimised, lengths and failure reports checked.",
      "First-match lookup in /verif is the reference; key space limited to 3-4 bits and tables to <=8 entries.",
      "DESIGN.md section 4, C04")
claim("C03", "exploration",
      "Every set of dead directed links/chips up to a bound on tiny tori, 3x2/3x3 tori, 3x3/4x4 meshes and almost-tori, plus "
      "tree-focused fault sets (every subset of the net's own tree links dead, with extra dead links), walls, histories on one "
      "Machine object whose links die between calls, x every source x every small "
      "sink set x radii, with the router's random tie-breaks owned and explored to a deviation bound; each returned tree is walked by "
      "an independent oracle (root, adjacency modulo size, live links/chips, each chip once, exact leaves, only the documented error "
      "and only on machines that are not strongly connected).",
      "Machines up to 4x4; tie-breaks beyond the deviation bound follow one fixed fair stream; placements on live chips.",
      "DESIGN.md section 4, C03")
claim("C12", "model_checking",
      "Target sets within edit distance 2-3 of empty and of full at every level of the region hierarchy (4x4, 16x16, 64x64 blocks, "
      "whole machine), blocks straddling level boundaries, neighbouring blocks with different core sets and second-core overlays are "
      "compressed by the real code and decoded by an independent region-word decoder (exact cover, nothing twice, strictly increasing); "
      "every chip x level for the single-chip region word; explicit-state BFS over all insertion orders of the last <=6-7 (chip, core) "
      "pairs on the real RegionCoreTree from pre-filled near-full states, invariant checked in every state; call histories, idle "
      "chips and repeated requests.",
      "Region-word meaning as documented in the module docstring; the 2^1.2M subsets cannot be enumerated - coverage is the stated neighbourhoods.",
      "DESIGN.md section 4, C12")
claim("C15", "exploration",
      "Every header field over its full width (8-bit tag/coordinates, all 256 port/core bytes, all 65536 commands and sequence "
      "numbers) against three backgrounds, argument presence patterns x boundary values, payload lengths 0..16/255, decoding of "
      "every data length 0..20 with every n_args, compared byte-for-byte / slot-for-slot with an encoder and decoder written from "
      "the documented wire layout (thorough adds pairwise field combinations); re-encoding and decoding histories.",
      "Fields are varied one (thorough: two) at a time, not in full product; layout reference written in /verif.",
      "DESIGN.md section 4, C15")
claim("C16", "exploration",
      "For every format (signed/unsigned x 8/12/16/24/32/64 bits x n_frac) every breakpoint of the piecewise-constant conversion "
      "(all levels for 8/16-bit, boundary levels otherwise) with both float neighbours plus extremes is converted by the scalar, "
      "array and deprecated converters and compared with exact integer arithmetic; monotonicity, range, one-step accuracy, "
      "fix->float->fix identity, element-wise/shape/layout agreement, two's-complement agreement of deprecated variants, negative "
      "n_frac, converter-creation histories and extreme words of every integer dtype are checked.",
      "Exhaustive over the breakpoint alphabet, not the float line; float64 inputs; inverse only for values a double holds exactly.",
      "DESIGN.md section 4, C16")
claim("C19", "exploration",
      "Complete enumeration: W,H in {12,24,36} x all 144 root offsets x every chip against an independent board-tile model (48-chip "
      "hexagon, Ethernet chips at (0,0),(4,8),(8,4)+12Z^2): local Ethernet chip, on-board coordinate, Ethernet chip list; ragged sizes; "
      "every (chip, link) for FPGA links (presence iff the link leaves the board, 48 distinct ids) also through machine coordinates "
      "and root offsets; board counts 0..3000 for standard dimensions.",
      "Tile model written in /verif from the documented board shape.", "DESIGN.md section 4, C19")
claim("C06", "model_checking",
      "The real send_scp_burst runs on a virtual socket/select/clock; every datagram's fate (lost, duplicated, slow, at the deadline, "
      "late by one or two timeouts, retryable code, fatal code, late fatal) and every callback's duration are choice points. All "
      "executions with <=3 (two bursts: <=2; thorough 4/3) departures from prompt delivery are enumerated for burst shapes up to 5 "
      "commands x window x n_tries x extra timeout x four sequence-counter configurations; a monitor checks exactly-once callbacks "
      "with the matching reply, window, retransmission spacing and count, timeout/fatal error conditions and termination.",
      "Virtual environment: time passes only in select()/callbacks; arrival-time menu relative to the timeout; the 16-bit counter wrap "
      "is explored with the library's own generator at mask=3 and witnessed once on the real counter (65537 commands).",
      "DESIGN.md section 4, C06")
claim("C13", "model_checking",
      "Breadth-first search over all operation histories of depth <=3 (thorough 4) on real MemoryIO/SlicedMemoryIO objects (root views of "
      "length 0, 1, 4 at an unaligned base, up to 3 live views) over an alphabet of seeks (all whences, negative and past-the-end "
      "offsets), reads, writes, 49 slicings, close/with/free etc.; states de-duplicated on (view bounds, offset, closed, freed, region "
      "bytes). On every transition the result is compared with a bounded-file reference model and every memory access the view issues "
      "must lie inside that view; after close/free data/position operations must raise.",
      "Reference = bounded file with Python seek semantics; positions < 0 constrain only confinement; fake controller = byte array.",
      "DESIGN.md section 4, C13")
claim("C08", "model_checking",
      "Definition/value/layout histories in canonical form run on the real BitField: every hierarchy of <=4 (thorough 5) fields (scope = "
      "root, f=v chains, conjunctions) x length specs x bit-field lengths tight-1/tight/tight+1; explicit positions (all starts incl. "
      "-1 and L, lengths <=3, L<=5); tag sets over 3 scope levels (incl. a shared set object); every interleaving of define / give "
      "value / assign_fields for <=3 fields; large values. In every final state all complete value assignments are swept: disjoint "
      "in-range fields, width >= values, read-back, mask = union, tag masks and closure, pairwise non-matching keys; assignment "
      "failures are judged with a backtracking layout search and a reference first-fit (completeness clause).",
      "Canonical identifier order; condition values {0,1}; hierarchies the implementation's tree can express.",
      "DESIGN.md section 4, C08")
claim("C07", "exploration",
      "The real MachineController reads/writes a simulated machine (position-dependent memory pattern, byte-array model of every chip): "
      "buffer sizes {4,5,6,7,8,12,16,256} x window {1,2,3,8} x address mod 4 at two bases x every length 0..3*buffer+3 x chips/cores; every "
      "field of the sv and vcpu structs (read and write); fills; link reads/writes on all six links; and every datagram-fate sequence "
      "(request lost, reply lost, duplicated, slow) with <=1 (thorough 2) deviations on the buffer-8/window-3 slice. After every operation "
      "the returned bytes, the whole memory of every chip and the machine's protocol monitor (buffer size, access-type alignment, "
      "announced vs carried length) are checked.",
      "SimMachine encodes the SCP memory commands as described by the controller's docstrings (trusted base); _window_size set directly.",
      "DESIGN.md section 4, C07")
claim("C09", "fault_enumeration",
      "The real load_application runs against a simulated machine that assembles and validates every flood fill (block count, numbering, "
      "sizes, ids, selections before data and in increasing order). Part A: maps x binary sizes around buffer multiples x buffer {16,256} x "
      "wait x verification mode. Part B: for maps of 1-2 binaries on <=3 chips x n_tries {0,1,2} x verification mode x initial core tables "
      "(clean / target core already waiting / other core waiting under the same id), EVERY set of chips missing EVERY fill is enumerated "
      "(no deviation bound). Oracle: normal return iff all requested cores hold their binary under the app id in the right state; error "
      "names exactly the unloaded cores; retries address exactly the missing cores; attempts bounded; no other core changed.",
      "SimMachine flood-fill semantics (a chip receives a whole fill or none); binaries are whole words.",
      "DESIGN.md section 4, C09")
claim("C10", "exploration",
      "(a) routing_tree_to_tables on every tree of a generated family (all child subsets to depth 2 on a 3x2 grid, leaf variants incl. "
      "route-less leaves and link endpoints) singly and in every ordered pair with same/different key+mask, against an independent "
      "traversal (routes, sources, multi-source error iff forks differ). (b) the real load_routing_table_entries / load_routing_tables / "
      "get_routing_table_entries against a simulated router: every route bit, every pair, all 64 link subsets x core sets, key/mask "
      "extremes, lengths up to 1023/1024, app ids, two chips, nine free-list states; router contents, order, app tag, block, untouched "
      "other entries/chips, error iff no block fits, read-back equality.",
      "SimMachine router/alloc commands from the controller's docstrings; router entry 0 reserved.", "DESIGN.md section 4, C10")
claim("C14", "exploration",
      "Simulated machine states (sizes 1x1..2x17, every dead-chip subset on <=3x2, unresponsive-but-listed chips, nine core-state "
      "patterns incl. global+chip-specific busy cores, core counts 1..18, all 64 link subsets, free sdram/sram/router figures, Ethernet/"
      "IP/local-Ethernet values, point-to-point addressing larger than the machine, dead corners) are probed through the real "
      "get_system_info/get_chip_info/get_p2p_routing_table/get_processor_status/get_iobuf/get_router_diagnostics/get_software_version "
      "(both version encodings) and compared field by field; the derived Machine, core reservations (exact cover of non-idle cores, no "
      "overlap, in range) and routing-table target lengths are checked against the simulated state.",
      "SimMachine encodes the info reply / p2p packing / vcpu block / iobuf chain from the controller's docstrings.",
      "DESIGN.md section 4, C14")
claim("C18", "model_checking",
      "Breadth-first search over context-block histories (enter one of 9 frames, enter application(1|2), leave normally, leave by "
      "exception, update current context; depth <=3, thorough 4) on a real MachineController; in every state the merged arguments must "
      "equal a stack-of-dicts model, application blocks must send exactly one stop for their id on either exit, and probe methods are "
      "called. Every wrapped method (found by introspection) x call forms (none, all keyword, all positional, each argument alone, falsy "
      "explicit values) is run in every merged context (256) next to a twin controller that gets the model-resolved values explicitly: "
      "datagram traces must be identical; a missing required argument must raise TypeError before anything is sent. Wire fields "
      "(destination chip/core, app-id fields), connection selection against the SpiNN-5 tile model for three root chips, and the board "
      "controller (cabinet/frame/board contexts, most specific connection) are checked directly.",
      "Twin simulated machines; table of non-contextual arguments in the harness; nested internal calls resolve from the same context.",
      "DESIGN.md section 4, C18")
claim("C20", "model_checking",
      "Every sequence of <=3 boot calls from an alphabet of ten (no options, board presets, arbitrary and zero-valued overrides, options "
      "through an explicit sv_overrides dict, through MachineController.boot, bundled and synthetic images) runs on the real boot code "
      "with a capturing socket and frozen clock, each history from a freshly re-executed boot module. Every call's datagrams are decoded "
      "(start/blocks/end, announced count, numbering, <=1 KiB whole-word blocks, byte swap) and must reassemble to the image with bytes "
      "384..511 equal to a reference packing of the sv defaults with exactly this call's options; returned structs must agree; the "
      "caller's dict must be unchanged; all image sizes at block boundaries.",
      "Boot datagram format as documented in boot.py; reference packer reads rig/boot/sark.struct with an independent parser.",
      "DESIGN.md section 4, C20")
claim("C02", "exploration",
      "Every placer (sequential, breadth-first, Hilbert with/without BFS order, RCM, random, annealing with the Python and the C kernel) "
      "runs on: (unit) machines 1x1..3x3/5x1/1x5 x capacities x dead/exception chips x global/per-chip reservations with unit-demand "
      "vertex sets up to and just beyond the free capacity and pinned vertices - every placer must succeed when the completeness clause "
      "holds; (general) <=3 (thorough 4) vertices x all need tuples x 13 constraint sets (locations incl. dead/outside chips, same-chip "
      "groups chained/duplicated/pinned) x nets with weights 0/1/2.5; (orders) the sequential placer with every vertex and chip order; "
      "(tiny_random) deviation-bounded exploration (bound 2-3) of the owned random source. Results are judged by an independent "
      "feasibility oracle (union-find groups, capacity after reservations, locations), only the two documented errors are accepted, "
      "arguments must be unchanged, 60 s watchdog.",
      "Annealer horizon cut by on_temperature_change; C kernel random stream only selectable by seed; machines <= 3x3 (thorough 5x5).",
      "DESIGN.md section 4, C02")
claim("C01", "exploration",
      "Part A: for machines 2x1/2x2/3x2 (thorough 3x3) as torus and mesh with <=1 dead chip and <=1 (2) dead directed links, seven (nine) "
      "graphs incl. device vertices with route-endpoint constraints, self loops and repeated sinks, EVERY feasible placement is pushed "
      "through allocate -> route (radius 0/1/20, owned tie-breaks) -> routing_tree_to_tables -> minimise_tables (methods x targets) and a "
      "packet is walked for every net (two concrete keys when masks have don't-cares) through the final tables: first match, default "
      "routing, only working links/chips, no drop, no circulation, deliveries = allocated sink cores / endpoint links exactly once. "
      "Part 'many': 4-6 nets through one chip x all 2^n destination patterns x all placements. Part B: both wrappers x seven placers "
      "from a SystemInfo (busy cores, dead chips/links, tiny free router blocks) incl. one probed from the simulated machine.",
      "Hardware routing semantics (first match, default routing) restated in /verif; graphs <= 4 vertices; machines <= 3x3.",
      "DESIGN.md section 4, C01")
claim("C17", "model_checking",
      "A freshly started server interpreter forks one child per history: every sequence of <=2 (thorough: 3 over a reduced alphabet) calls "
      "from an alphabet of 32 library calls with differing arguments (all placers incl. both annealing kernels, allocate, route x radii, "
      "table generation, each minimiser with/without target incl. alias-sensitive tables, bit fields with shared tag sets, machine "
      "controllers with nested contexts, boot with three option styles, the deprecated wrapper, Machine defaults) followed by a probe call; "
      "the probe's result must equal its result as the first call of a fresh interpreter, deep snapshots of every argument before/after "
      "each call must agree, the hexagon memo must equal a fresh computation; the introspected hidden mutable state (default arguments, "
      "module globals, class attributes) identifies the states of the search.",
      "Reference = first-call result in a fresh interpreter; seeded generators are part of each probe.",
      "DESIGN.md section 4, C17")
