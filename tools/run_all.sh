#!/bin/bash
# Run every check of one tier sequentially; print the summary line of each.
tier=${1:-quick}
rc=0
for p in ${CHECKS:-C01 C02 C03 C04 C05 C06 C07 C08 C09 C10 C11 C12 C13 C14 C15 C16 C17 C18 C19 C20}; do
  s=$(date +%s)
  out=$(VERIF_DEBUG=1 timeout ${PER_CHECK_TIMEOUT:-3000} ./check $p --tier $tier 2>&1); e=$?
  echo "$p exit=$e $(( $(date +%s) - s ))s | $(echo "$out" | grep -c '^VIOLATION') violations | $(echo "$out" | tail -1 | cut -c1-170)"
  echo "$out" | grep "slow shard" | head -3
  if [ $e -ne 0 ]; then rc=1; echo "$out" | grep -A3 '^VIOLATION\|HARNESS' | head -20; fi
done
exit $rc
