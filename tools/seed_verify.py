#!/venv/bin/python
"""Confirm a seeded change and run the matching check against it.

    tools/seed_verify.py seeded/C05_1 [--tier quick] [--skip-baseline]

In a scratch worktree of /repo HEAD under /tmp (removed afterwards):
 1. demo.py exits 0 on the clean tree;
 2. patch.diff applies; demo.py exits non-zero with it;
 3. the pinned baseline suite (guard off) still passes (tools/baseline_check);
 4. ./check <property> --tier <tier> with RIG_VERIF_REPO=<worktree> -> verdict.
Results are merged into the seed's meta.json under "verified".
"""
import json
import os
import subprocess
import sys
import time

VERIF = os.path.dirname(os.path.dirname(os.path.abspath(__file__)))


def sh(cmd, cwd=None, env=None, timeout=3600):
    p = subprocess.run(cmd, cwd=cwd, env=env, shell=isinstance(cmd, str),
                       stdout=subprocess.PIPE, stderr=subprocess.STDOUT,
                       text=True, timeout=timeout)
    return p.returncode, p.stdout


def main():
    args = [a for a in sys.argv[1:] if not a.startswith("--")]
    tier = "quick"
    if "--tier" in sys.argv:
        tier = sys.argv[sys.argv.index("--tier") + 1]
        args.remove(tier)
    seed = os.path.abspath(args[0])
    name = os.path.basename(seed.rstrip("/"))
    meta_path = os.path.join(seed, "meta.json")
    meta = json.load(open(meta_path)) if os.path.exists(meta_path) else {}
    prop = meta.get("property") or name.split("_")[0]
    checks = meta.get("checks") or [prop]
    wt = "/tmp/sv_%s_%d" % (name, os.getpid())
    rc, out = sh(["git", "-C", "/repo", "worktree", "add", "-q", "--detach",
                  wt, "HEAD"])
    if rc:
        print(out)
        return 2
    res = dict(repo_head=sh("git -C /repo rev-parse --short HEAD")[1].strip(),
               verif_head=sh("git -C %s rev-parse --short HEAD"
                             % VERIF)[1].strip(), tier=tier,
               when=time.strftime("%Y-%m-%d %H:%M"))
    try:
        env = dict(os.environ, PYTHONPATH=wt, PYTHONDONTWRITEBYTECODE="1",
                   PYTHONHASHSEED="0")
        demo = os.path.join(seed, "demo.py")
        rc, out = sh(["/venv/bin/python", "-W", "ignore", demo], cwd=wt,
                     env=env, timeout=600)
        res["demo_clean_exit"] = rc
        rc, out = sh(["git", "apply", os.path.join(seed, "patch.diff")], cwd=wt)
        if rc:
            print("patch does not apply:", out)
            res["patch_applies"] = False
            return 2
        res["patch_applies"] = True
        rc, out = sh(["/venv/bin/python", "-W", "ignore", demo], cwd=wt,
                     env=env, timeout=600)
        res["demo_mutated_exit"] = rc
        res["demo_mutated_tail"] = out.strip().splitlines()[-2:]
        if "--skip-baseline" not in sys.argv:
            rc, out = sh([os.path.join(VERIF, "tools", "baseline_check.py"),
                          wt])
            res["baseline_ok"] = (rc == 0)
            res["baseline_tail"] = out.strip().splitlines()[-1:]
        else:
            # keep the verdict of the last baseline run against this seed
            old = meta.get("verified", {})
            if old.get("baseline_ok") is not None:
                res["baseline_ok"] = old["baseline_ok"]
                res["baseline_tail"] = old.get("baseline_tail", [])
                res["baseline_from"] = old.get("baseline_from") or \
                    old.get("when")
        res["checks"] = {}
        for c in checks:
            env2 = dict(os.environ, RIG_VERIF_REPO=wt)
            t0 = time.time()
            rc, out = sh([os.path.join(VERIF, "check"), c, "--tier", tier],
                         cwd=VERIF, env=env2, timeout=7200)
            lines = out.strip().splitlines()
            viol = [l for l in lines if l.startswith("VIOLATION")]
            res["checks"][c] = dict(
                exit=rc, caught=(rc == 1 and bool(viol)),
                wall_s=round(time.time() - t0, 1),
                first=[l for l in lines if l.startswith(("VIOLATION", "  sig",
                                                         "HARNESS"))][:4],
                detail=[l for l in lines if l.startswith("  ")][1:3])
        # evidence files were rewritten from the mutated tree: not evidence
        res["caught"] = any(v["caught"] for v in res["checks"].values())
    finally:
        sh(["git", "-C", "/repo", "worktree", "remove", "--force", wt])
    meta["verified"] = res
    with open(meta_path, "w") as f:
        json.dump(meta, f, indent=1, sort_keys=True)
    ok = (res.get("demo_clean_exit") == 0 and res.get("demo_mutated_exit")
          and res.get("baseline_ok", True))
    print("%s: demo clean=%s mutated=%s baseline_ok=%s -> valid=%s caught=%s %s"
          % (name, res.get("demo_clean_exit"), res.get("demo_mutated_exit"),
             res.get("baseline_ok"), bool(ok), res.get("caught"),
             {c: (v["exit"], v["wall_s"]) for c, v in res["checks"].items()}))
    for c, v in res["checks"].items():
        for l in v["first"][:3]:
            print("   ", l[:200])
    return 0


if __name__ == "__main__":
    sys.exit(main())
