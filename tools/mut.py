#!/venv/bin/python
"""Apply a one-off textual mutation to a scratch worktree and run a check.

  tools/mut.py C15 rig/machine_control/packets.py 'OLD' 'NEW' [--baseline] [--tier quick]

OLD must occur exactly once (or use --all).  Prints CAUGHT / MISSED."""
import os, subprocess, sys
args = [a for a in sys.argv[1:] if not a.startswith("--")]
check, path, old, new = args[:4]
tier = "quick"
wt = "/tmp/mut_%d" % os.getpid()
subprocess.check_call(["git", "-C", "/repo", "worktree", "add", "-q", "--detach", wt, "HEAD"])
try:
    p = os.path.join(wt, path)
    s = open(p).read()
    n = s.count(old)
    if n != 1 and "--all" not in sys.argv:
        print("pattern occurs %d times" % n); sys.exit(2)
    open(p, "w").write(s.replace(old, new))
    if "--baseline" in sys.argv:
        r = subprocess.run(["/verif/tools/baseline_check.py", wt], stdout=subprocess.PIPE, text=True)
        print("baseline:", r.stdout.strip().splitlines()[-1])
    if "--thorough" in sys.argv:
        tier = "thorough"
    env = dict(os.environ, RIG_VERIF_REPO=wt)
    r = subprocess.run(["/verif/check", check, "--tier", tier], cwd="/verif", env=env,
                       stdout=subprocess.PIPE, stderr=subprocess.STDOUT, text=True)
    lines = r.stdout.strip().splitlines()
    v = [l for l in lines if l.startswith("VIOLATION")]
    print("CAUGHT" if (r.returncode == 1 and v) else "MISSED (exit %d)" % r.returncode)
    for l in lines[:6]:
        print("   ", l[:220])
    print("   ", lines[-1][:220])
finally:
    subprocess.call(["git", "-C", "/repo", "worktree", "remove", "--force", wt])
