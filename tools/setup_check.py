"""MANIFEST.setup_cmd: nothing is built or downloaded; verify the interpreter,
the third-party modules the harness needs and that rig imports from /repo."""
import os, sys
sys.path.insert(0, os.environ.get("RIG_VERIF_REPO", "/repo"))
import numpy, six  # noqa
import rig.machine_control, rig.place_and_route, rig.routing_table, rig.bitfield, rig.geometry, rig.type_casts  # noqa
print("setup ok: python", sys.version.split()[0], "rig from", rig.__file__)
