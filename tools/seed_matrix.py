#!/venv/bin/python
"""Summarise seeded/*/meta.json (as written by tools/seed_verify.py)."""
import glob, json, os
rows = []
for d in sorted(glob.glob("/verif/seeded/*/")):
    m = json.load(open(os.path.join(d, "meta.json")))
    v = m.get("verified", {})
    name = os.path.basename(d.rstrip("/"))
    checks = v.get("checks", {})
    caught = [c for c, r in checks.items() if r.get("caught")]
    first = ""
    for c, r in checks.items():
        if r.get("caught"):
            first = " ".join(x.strip() for x in r.get("first", [])[1:2])
    rows.append((name, m.get("summary", "")[:110], m.get("needs", "")[:90],
                 v.get("demo_clean_exit"), v.get("demo_mutated_exit"),
                 v.get("baseline_ok"), ",".join(caught) or "-", first[:80],
                 m.get("note", "")[:60]))
print("| seed | change | valid (demo clean/mutated, suite) | caught by | first signature |")
print("|---|---|---|---|---|")
for r in rows:
    valid = "%s/%s, %s" % (r[3], r[4], r[5])
    print("| %s | %s | %s | %s | %s %s |" % (r[0], r[1].replace("|", "/"), valid, r[6], r[7].replace("|", "/"), ("(" + r[8] + ")") if r[8] else ""))
print()
print("%d seeds, %d caught" % (len(rows), sum(1 for r in rows if r[6] != "-")))
