"""C12 - flood-fill region list selects exactly the requested chips and cores.

E3: target sets within edit distance 2-3 of *empty* and of *full* at every
level of the region hierarchy (collapse happens only at 16/16), blocks
straddling level boundaries, neighbouring blocks with different core sets, the
whole machine; every chip for the single-chip region word.  E2: breadth-first
search over all insertion orders of the last few (chip, core) pairs through
the real RegionCoreTree.add_core from pre-filled states.  The oracle decodes
region words from their documented meaning."""
import copy
import itertools

import numpy as np

PROPERTY = "C12"
LEVEL = "model_checking"
TECHNIQUE = ("bounded-exhaustive enumeration of target sets near empty/full "
             "at every hierarchy level plus explicit-state BFS over insertion "
             "orders on the real region tree; independent region-word decoder")
RULE = ("families: F1 level-3 block (full minus <=2 chips, <=3 chips) x second "
        "core variants; F2 16x16 block full minus <=1 chip x second core on "
        "<=2 chips, and minus 2 chips; F3 64x64 block full minus <=1 chip; F4 "
        "all subsets of <=4 of 9 chips straddling the x=y=64 boundary; F5 "
        "neighbouring blocks with different core sets; F6 whole machine; F7 "
        "every chip x level for get_region_for_chip; F8 BFS over insertion "
        "orders (states = canonical trees). Non-trivial: >=2 chips or >=2 "
        "cores requested; target sets are distinct by construction")
ASSUMPTIONS = [
    "region word meaning as documented: x base bits 31:24, y base bits 23:18, "
    "level bits 17:16, sixteen select bits for the 4x4 sub-blocks of the "
    "level's block, bit index = sx + 4*sy",
    "subsets of the 1.2M-core space cannot be enumerated; coverage is every "
    "set within the stated edit distance of empty and of full per level",
]


def scope(tier):
    q = tier == "quick"
    return dict(F2_minus2=True, F2_second_core_chips=2,
                F3_positions=1 if q else 3, F8_remaining_pairs=6 if q else 7)


def shards(tier):
    out = [dict(f="F0"), dict(f="F1"), dict(f="F4"), dict(f="F5"),
           dict(f="F6"), dict(f="F8"), dict(f="F9"), dict(f="F10")]
    out += [dict(f="F2a", k=k) for k in range(16)]
    out += [dict(f="F2b", k=k) for k in range(16)]
    out += [dict(f="F3", k=k) for k in range(16)]
    out += [dict(f="F7", k=k) for k in range(8)]
    return out


# ------------------------------------------------------------------ decoder
def decode(region):
    """-> (level, list of rectangles (x0, y0, size)) or raises ValueError."""
    level = (region >> 16) & 3
    bx = (region >> 24) & 0xff
    by = (region >> 16) & 0xfc
    if region >> 32:
        raise ValueError("region word wider than 32 bits")
    shift = 6 - 2 * level
    sub = 1 << shift
    block = sub * 4
    if bx % block or by % block:
        raise ValueError("block base (%d,%d) not aligned to level %d block"
                         % (bx, by, level))
    rects = []
    for i in range(16):
        if region & (1 << i):
            rects.append((bx + (i % 4) * sub, by + (i // 4) * sub, sub))
    return level, rects


def check_pairs(pairs, targets):
    """None if `pairs` select exactly `targets` ({chip: set(cores)}), each
    core once, in strictly increasing order; else a message."""
    pairs = list(pairs)
    for a, b in zip(pairs, pairs[1:]):
        if not tuple(a) < tuple(b):
            return ("pairs not strictly increasing: (%#x,%#x) then (%#x,%#x)"
                    % (a[0], a[1], b[0], b[1]))
    cores = set()
    for cs in targets.values():
        cores |= set(cs)
    count = {p: np.zeros((256, 256), dtype=np.uint8) for p in cores}
    for region, mask in pairs:
        if mask <= 0 or mask >> 18:
            return "core mask %#x out of range" % mask
        try:
            level, rects = decode(region)
        except ValueError as e:
            return "region %#x: %s" % (region, e)
        if not rects:
            return "region %#x selects nothing" % region
        for p in range(18):
            if mask & (1 << p):
                if p not in count:
                    return ("core %d selected by (%#x,%#x) but never "
                            "requested" % (p, region, mask))
                for x0, y0, s in rects:
                    count[p][x0:x0 + s, y0:y0 + s] += 1
    for p in sorted(cores):
        exp = np.zeros((256, 256), dtype=np.uint8)
        xs = [c[0] for c, cs in targets.items() if p in cs]
        ys = [c[1] for c, cs in targets.items() if p in cs]
        exp[xs, ys] = 1
        if (count[p] > 1).any():
            x, y = np.argwhere(count[p] > 1)[0]
            return "core %d on chip (%d,%d) selected %d times" % (
                p, x, y, count[p][x, y])
        if not (count[p] == exp).all():
            x, y = np.argwhere(count[p] != exp)[0]
            return ("core %d on chip (%d,%d): %s" % (
                p, x, y, "missing" if exp[x, y] else "selected but not "
                "requested"))
    return None


# -------------------------------------------------------------------- judge
def judge(case, acc):
    """case: dict(targets=[[x, y, [cores]], ...] in insertion order)"""
    from rig.machine_control.regions import compress_flood_fill_regions
    targets = {}
    given = {}
    for x, y, cs in case["targets"]:
        targets[(x, y)] = set(cs)
        # "as_list": the cores are given as a list in which each core
        # appears twice (any iterable of core numbers is accepted)
        given[(x, y)] = (list(cs) + list(cs)) if case["recipe"].get(
            "as_list") else set(cs)
    acc.evaluations += 1
    try:
        pairs = list(compress_flood_fill_regions(given))
    except Exception as e:
        acc.violation(dict(kind="exception", exc=type(e).__name__),
                      compact(case), "compress_flood_fill_regions raised "
                      "%s: %s" % (type(e).__name__, e), size=len(targets))
        return
    acc.outcome("pairs=%d" % min(len(pairs), 12))
    msg = check_pairs(pairs, targets)
    if msg:
        kind = ("order" if "increasing" in msg else "twice" if "times" in msg
                else "missing" if "missing" in msg else "extra")
        sig = dict(kind=kind)
        if "history" in case["recipe"]:
            sig["history"] = True
        acc.violation(sig, compact(case),
                      msg + " [%s; %d chips; pairs %s]" % (
                          case.get("desc", ""), len(targets),
                          ["(%#x,%#x)" % tuple(p) for p in pairs[:8]]),
                      size=len(targets))


def compact(case):
    """Replayable description: generator recipe rather than 4096 chips."""
    return dict(recipe=case["recipe"], desc=case.get("desc", ""))


def expand(recipe):
    """recipe -> targets list in insertion order.
    recipe = dict(blocks=[dict(x0,y0,size,cores,minus=[[x,y],..])],
                  extra=[[x,y,[cores]],...], extra_first=bool)"""
    t = {}
    order = []

    def add(x, y, cs):
        if (x, y) not in t:
            t[(x, y)] = []
            order.append((x, y))
        for c in cs:
            if c not in t[(x, y)]:
                t[(x, y)].append(c)
    extra = recipe.get("extra", [])
    if recipe.get("extra_first"):
        for x, y, cs in extra:
            add(x, y, cs)
    for b in recipe.get("blocks", []):
        minus = set(map(tuple, b.get("minus", [])))
        for x in range(b["x0"], b["x0"] + b["size"]):
            for y in range(b["y0"], b["y0"] + b["size"]):
                if (x, y) not in minus:
                    add(x, y, b["cores"])
    if not recipe.get("extra_first"):
        for x, y, cs in extra:
            add(x, y, cs)
    return [[x, y, t[(x, y)]] for x, y in order]


def run_recipe(recipe, desc, acc):
    tg = expand(recipe)
    if len(tg) >= 2 or any(len(c) >= 2 for _, _, c in tg):
        acc.nontrivial += 1
    judge(dict(recipe=recipe, desc=desc, targets=tg), acc)


def chips_of(x0, y0, size):
    return [(x, y) for x in range(x0, x0 + size) for y in range(y0, y0 + size)]


# ----------------------------------------------------------------- families
def F0(tier, acc):
    """Target sets that lie entirely inside the block at the origin (the
    whole set fits a low level of the hierarchy)."""
    for size in (4, 16, 64):
        chips = chips_of(0, 0, size)
        for cores in ([1], [1, 2], [0, 17]):
            for minus in [None, (0, 0), (size - 1, size - 1), (1, 2)]:
                rec = dict(blocks=[dict(x0=0, y0=0, size=size, cores=cores,
                                        minus=[list(minus)] if minus
                                        else [])])
                run_recipe(rec, "F0 origin block %d" % size, acc)
                rec = dict(blocks=[dict(x0=0, y0=0, size=size, cores=cores,
                                        minus=[list(minus)] if minus
                                        else [])],
                           extra=[[size - 1, 0, [5]]], extra_first=True)
                run_recipe(rec, "F0 origin block %d + core 5" % size, acc)
    for n in (1, 2, 3):
        for s_ in itertools.combinations(chips_of(0, 0, 2) +
                                         [(3, 3), (15, 15), (63, 63)], n):
            run_recipe(dict(extra=[[x, y, [1]] for x, y in s_]),
                       "F0 sparse near origin", acc)
    acc.sample(dict(family="F0"))


def F1(tier, acc):
    x0, y0 = 4, 8
    chips = chips_of(x0, y0, 4)
    sets = []
    for n in (0, 1, 2):
        for m in itertools.combinations(chips, n):
            sets.append(("full-%d" % n, [c for c in chips if c not in m]))
    for n in (1, 2, 3):
        for s in itertools.combinations(chips, n):
            sets.append(("sparse%d" % n, list(s)))
    for name, s in sets:
        for v in ("none", "same", "one", "full", "first"):
            extra = [[x, y, [1]] for x, y in s]
            if v == "same":
                extra = [[x, y, [1, 2]] for x, y in s]
            elif v == "one":
                extra = extra + [[x0 + 1, y0 + 2, [2]]]
            elif v == "full":
                extra = extra + [[x, y, [2]] for x, y in chips]
            elif v == "first":
                extra = [[x0 + 1, y0 + 2, [17]]] + extra
            run_recipe(dict(extra=extra), "F1 %s core2=%s" % (name, v), acc)
    acc.sample(dict(family="F1", sets=len(sets)))


def F2a(k, tier, acc):
    """16x16 block full (minus <=1 chip) for core 1, second core on <=2 chips
    inside, inserted before / after the block completes."""
    x0, y0 = 16, 32
    chips = chips_of(x0, y0, 16)
    i = -1
    for minus in [()] + [(c,) for c in chips[::5]]:
        for n in (0, 1, 2):
            for second in itertools.combinations(chips, n):
                i += 1
                if i % 16 != k:
                    continue
                if n == 2 and (minus or (tier == "quick" and not any(
                        c[0] < x0 + 8 and c[1] < y0 + 8 for c in second))):
                    # two chips for the second core: only with the block
                    # complete; quick: both inside the 8x8 corner
                    continue
                for first in (True, False):
                    if n == 0 and not first:
                        continue
                    rec = dict(blocks=[dict(x0=x0, y0=y0, size=16, cores=[1],
                                            minus=[list(c) for c in minus])],
                               extra=[[x, y, [2]] for x, y in second],
                               extra_first=first)
                    run_recipe(rec, "F2a", acc)
    acc.sample(dict(family="F2a", block=[x0, y0, 16]))


def F2b(k, tier, acc):
    """16x16 block full minus every pair of chips."""
    x0, y0 = 48, 16        # last level-2 block of the first level-1 block
    chips = chips_of(x0, y0, 16)
    i = -1
    pool = chips
    if tier == "quick":
        # quick scope: both missing chips inside the 8x8 corner that straddles
        # four 4x4 sub-blocks, or one there and the other in the far corner
        pool = [c for c in chips if c[0] < x0 + 8 and c[1] < y0 + 8] + \
            [(x0 + 15, y0 + 15), (x0 + 12, y0 + 3)]
    for minus in itertools.combinations(pool, 2):
        i += 1
        if i % 16 != k:
            continue
        rec = dict(blocks=[dict(x0=x0, y0=y0, size=16, cores=[3, 4],
                                minus=[list(c) for c in minus])])
        run_recipe(rec, "F2b", acc)
    acc.sample(dict(family="F2b", block=[x0, y0, 16]))


def F3(k, tier, acc):
    positions = [(64, 128), (192, 192), (0, 0)][:scope(tier)["F3_positions"]]
    for x0, y0 in positions:
        chips = chips_of(x0, y0, 64)
        pool = chips
        if tier == "quick":
            # quick scope: missing chip in the first 16x16 sub-block's
            # diagonal band or on the main diagonal of the 64x64 block
            pool = [c for c in chips if (c[0] - x0 == c[1] - y0) or
                    (c[0] < x0 + 16 and c[1] < y0 + 16 and
                     abs((c[0] - x0) - (c[1] - y0)) <= 1)]
        i = -1
        for c in [None] + pool:
            i += 1
            if i % 16 != k:
                continue
            rec = dict(blocks=[dict(x0=x0, y0=y0, size=64, cores=[1],
                                    minus=[list(c)] if c else [])],
                       extra=[[x0 + 5, y0 + 40, [2]]], extra_first=(i % 2 == 0))
            run_recipe(rec, "F3", acc)
    acc.sample(dict(family="F3", positions=positions))


def F4(tier, acc):
    chips = [(x, y) for x in (63, 64, 65) for y in (63, 64, 65)]
    variants = [lambda i: [1], lambda i: [0, 17], lambda i: [1, 2],
                lambda i: [1] if i % 2 == 0 else [2],
                lambda i: [16] if i == 0 else [1]]
    for n in range(1, 5):
        for s in itertools.combinations(range(9), n):
            for vi, v in enumerate(variants):
                for rev in (False, True):
                    idx = list(s)[::-1] if rev else list(s)
                    extra = [[chips[i][0], chips[i][1], v(j)]
                             for j, i in enumerate(idx)]
                    run_recipe(dict(extra=extra), "F4 v%d" % vi, acc)
    acc.sample(dict(family="F4", chips=chips))


def F5(tier, acc):
    A = chips_of(0, 0, 4)
    B = chips_of(4, 0, 4)
    for ma in [None] + A:
        for mb in [None] + B:
            for ca, cb in (([1], [1, 2]), ([1], [1]), ([1, 2], [2]),
                           ([17], [0])):
                rec = dict(blocks=[
                    dict(x0=0, y0=0, size=4, cores=ca,
                         minus=[list(ma)] if ma else []),
                    dict(x0=4, y0=0, size=4, cores=cb,
                         minus=[list(mb)] if mb else [])])
                run_recipe(rec, "F5", acc)
    # four level-2 blocks with different cores, one of them not full
    for m in [None, (20, 20)]:
        rec = dict(blocks=[
            dict(x0=0, y0=0, size=16, cores=[1]),
            dict(x0=16, y0=0, size=16, cores=[1, 2]),
            dict(x0=0, y0=16, size=16, cores=[2]),
            dict(x0=16, y0=16, size=16, cores=[1],
                 minus=[list(m)] if m else [])])
        run_recipe(rec, "F5 quad", acc)
    acc.sample(dict(family="F5"))


def F6(tier, acc):
    for m in [None, (0, 0), (255, 255), (64, 3), (100, 200)]:
        rec = dict(blocks=[dict(x0=0, y0=0, size=256, cores=[1],
                                minus=[list(m)] if m else [])])
        run_recipe(rec, "F6 whole machine", acc)
    # out-of-range coordinates must be rejected, not wrapped
    from rig.machine_control.regions import RegionCoreTree
    for x, y, p in ((256, 0, 1), (0, 256, 1), (-1, 0, 1), (0, 0, 18),
                    (0, 0, -1)):
        acc.evaluations += 1
        try:
            RegionCoreTree().add_core(x, y, p)
            acc.violation(dict(kind="range_not_rejected"),
                          dict(recipe=dict(add=[x, y, p]), desc="F6 range"),
                          "add_core(%d,%d,%d) accepted" % (x, y, p))
        except ValueError:
            pass
        except Exception as e:
            acc.violation(dict(kind="exception", exc=type(e).__name__),
                          dict(recipe=dict(add=[x, y, p]), desc="F6 range"),
                          "add_core(%d,%d,%d) raised %r" % (x, y, p, e))
    acc.sample(dict(family="F6"))


def F7(k, tier, acc):
    from rig.machine_control.regions import get_region_for_chip
    for x in range(k * 32, (k + 1) * 32):
        for y in range(256):
            for level in range(4):
                acc.evaluations += 1
                acc.nontrivial += 1
                try:
                    r = get_region_for_chip(x, y, level)
                    lv, rects = decode(r)
                except Exception as e:
                    lv, rects = -1, repr(e)
                sub = 1 << (6 - 2 * level)
                want = [((x // sub) * sub, (y // sub) * sub, sub)]
                if lv != level or rects != want:
                    acc.violation(
                        dict(kind="region_for_chip", level=level),
                        dict(recipe=dict(chip=[x, y], level=level),
                             desc="F7"),
                        "get_region_for_chip(%d,%d,%d) = %s decodes to level "
                        "%r blocks %r, expected %r" % (
                            x, y, level, r if lv != -1 else "?", lv, rects,
                            want))
    acc.sample(dict(family="F7", x_range=[k * 32, (k + 1) * 32]))


def canon(tree):
    sub = None
    if tree.level < 3:
        sub = tuple(None if s is None else canon(s) for s in tree.subregions)
    return (tree.level, tree.base_x, tree.base_y,
            tuple(tree.locally_selected), sub)


def F8(tier, acc):
    """E2: BFS over all insertion orders of the remaining pairs."""
    from rig.machine_control.regions import RegionCoreTree
    n = scope(tier)["F8_remaining_pairs"]
    prefills = []
    # (a) 4x4 block full minus 2 chips for core 1, core 2 on one chip
    blk = chips_of(8, 12, 4)
    pre = [(x, y, 1) for x, y in blk if (x, y) not in ((8, 12), (11, 15))]
    rem = [(8, 12, 1), (11, 15, 1), (8, 12, 2), (9, 13, 2), (11, 15, 2),
           (8, 12, 17), (12, 12, 1)][:n]
    prefills.append(("4x4 minus 2", pre, rem))
    # (b) 16x16 block full minus 2 chips in different 4x4 blocks
    blk = chips_of(32, 48, 16)
    miss = ((33, 49), (44, 60))
    pre = [(x, y, 1) for x, y in blk if (x, y) not in miss]
    rem = [(33, 49, 1), (44, 60, 1), (33, 49, 2), (40, 50, 2), (44, 60, 2),
           (47, 63, 2), (48, 48, 1)][:n]
    prefills.append(("16x16 minus 2", pre, rem))
    # (c) 64x64 block full minus one 4x4 block minus... (two chips missing in
    # one 16x16 block, rest full)
    blk = chips_of(64, 0, 64)
    miss = ((64, 0), (127, 63))
    pre = [(x, y, 1) for x, y in blk if (x, y) not in miss]
    rem = [(64, 0, 1), (127, 63, 1), (64, 0, 2), (100, 30, 2), (127, 63, 2),
           (128, 0, 1)][:min(n, 6)]
    prefills.append(("64x64 minus 2", pre, rem))
    for name, pre, rem in prefills:
        base = RegionCoreTree()
        for x, y, p in pre:
            base.add_core(x, y, p)
        base_set = {}
        for x, y, p in pre:
            base_set.setdefault((x, y), set()).add(p)
        seen = {}
        frontier = [(frozenset(), base)]
        seen[(frozenset(), canon(base))] = True
        acc.states += 1
        depth = 0
        while frontier:
            nxt = []
            for done, tree in frontier:
                for i, (x, y, p) in enumerate(rem):
                    if i in done:
                        continue
                    t2 = copy.deepcopy(tree)
                    acc.transitions += 1
                    acc.evaluations += 1
                    try:
                        t2.add_core(x, y, p)
                        pairs = sorted(t2.get_regions_and_coremasks())
                    except Exception as e:
                        pairs = None
                        msg = "raised %s: %s" % (type(e).__name__, e)
                    d2 = done | {i}
                    tg = {c: set(s) for c, s in base_set.items()}
                    for j in d2:
                        tg.setdefault((rem[j][0], rem[j][1]),
                                      set()).add(rem[j][2])
                    if pairs is not None:
                        msg = check_pairs(pairs, tg)
                    if msg:
                        acc.violation(
                            dict(kind="order_dependent"),
                            dict(recipe=dict(f8=name, order=None), desc="F8"),
                            "F8 %s: after inserting %r (in some order) then "
                            "%r: %s" % (name, [rem[j] for j in sorted(done)],
                                        rem[i], msg), size=len(d2))
                        continue
                    key = (d2, canon(t2))
                    if key not in seen:
                        seen[key] = True
                        acc.states += 1
                        acc.nontrivial += 1
                        nxt.append((d2, t2))
            frontier = nxt
            depth += 1
        acc.outcome("F8 %s: depth %d" % (name, depth))
        acc.sample(dict(family="F8", prefill=name, remaining=rem,
                        states=len(seen)))
    acc.traces += acc.transitions


def F10(tier, acc):
    """Idle chips (listed with no cores) and repeated requests."""
    from rig.machine_control.regions import RegionCoreTree
    # (a) blocks full except for chips that are listed with an empty core set
    for size, (x0, y0) in ((4, (0, 0)), (4, (20, 40)), (16, (16, 32)),
                           (64, (64, 128))):
        chips = chips_of(x0, y0, size)
        for idle in ([chips[0]], [chips[-1]], [chips[5], chips[6]],
                     chips[:size], chips[:len(chips) // 2]):
            for cores in ([3], [3, 17]):
                rec = dict(blocks=[dict(x0=x0, y0=y0, size=size, cores=cores,
                                        minus=[list(c) for c in idle])],
                           extra=[[c[0], c[1], []] for c in idle])
                run_recipe(rec, "F10 block %d with %d idle chips listed"
                           % (size, len(idle)), acc)
                run_recipe(dict(rec, extra_first=True),
                           "F10 block %d, idle chips listed first" % size,
                           acc)
    run_recipe(dict(extra=[[1, 1, []], [2, 2, []]]), "F10 only idle chips",
               acc)
    run_recipe(dict(extra=[[1, 1, []], [2, 2, [4]], [3, 3, []]]),
               "F10 one loaded chip among idle ones", acc)
    # (b) every core given twice
    for size, (x0, y0) in ((4, (0, 0)), (4, (20, 40)), (16, (16, 32))):
        chips = chips_of(x0, y0, size)
        for minus in ([], [chips[0]], [chips[-1]], [chips[3], chips[7]]):
            rec = dict(blocks=[dict(x0=x0, y0=y0, size=size, cores=[1, 2],
                                    minus=[list(c) for c in minus])],
                       as_list=True)
            run_recipe(rec, "F10 block %d minus %d, cores given twice"
                       % (size, len(minus)), acc)
    # (c) add_core histories with repetitions on the tree itself: a block
    # minus k chips, then m of the present chips added again
    for size, (x0, y0) in ((4, (8, 12)), (16, (32, 48))):
        chips = chips_of(x0, y0, size)
        for k in (1, 2, 3):
            present = chips[k:]
            for again in (1, k, k + 1, len(present)):
                acc.evaluations += 1
                acc.nontrivial += 1
                t = RegionCoreTree()
                seq = [(x, y, 1) for x, y in present] + \
                    [(x, y, 1) for x, y in present[:again]]
                try:
                    for x, y, p in seq:
                        t.add_core(x, y, p)
                    pairs = sorted(t.get_regions_and_coremasks())
                    msg = check_pairs(pairs, {c: {1} for c in present})
                except Exception as e:
                    msg = "raised %s: %s" % (type(e).__name__, e)
                if msg:
                    acc.violation(
                        dict(kind="repeated_add"),
                        dict(recipe=dict(f10=True), desc="F10"),
                        "F10 tree: block %d at (%d,%d) minus its first %d "
                        "chips, then the first %d present chips added "
                        "again: %s" % (size, x0, y0, k, again, msg),
                        size=k + again)
    acc.sample(dict(family="F10"))


def F9_pool():
    pool = []
    for size in (4, 16, 64):
        pool.append(dict(blocks=[dict(x0=0, y0=0, size=size, cores=[1],
                                      minus=[])]))
    pool.append(dict(blocks=[dict(x0=64, y0=64, size=16, cores=[1, 2],
                                  minus=[[64, 64]])]))
    pool.append(dict(extra=[[0, 0, [1]]]))
    pool.append(dict(extra=[[5, 5, [2]], [70, 70, [1]]]))
    pool.append(dict(extra=[[63, 63, [1]], [3, 3, [17]]]))
    pool.append(dict(extra=[]))
    return pool


def run_history(recipes, acc, idx):
    """Consecutive calls in one process: every call is judged against its
    own targets (nothing selected by an earlier call may reappear)."""
    for i, rec in enumerate(recipes):
        tg = expand(rec)
        judge(dict(recipe=dict(history=recipes[:i + 1], f9_index=idx),
                   desc="F9 call %d of history %d (%d calls; the histories "
                   "before it ran in the same process)"
                   % (i + 1, idx, len(recipes)), targets=tg), acc)


def run_same_object_history(acc):
    """The caller keeps ONE targets dictionary and edits it between calls
    (core added to a chip's set, a chip's set replaced, chip swapped for
    another): every call is judged against what the dictionary holds then."""
    from rig.machine_control.regions import compress_flood_fill_regions
    edits = [
        ("add core in place", lambda t: t[(1, 1)].add(5)),
        ("replace a chip's set", lambda t: t.__setitem__((2, 2), {7})),
        ("swap a chip", lambda t: (t.pop((3, 3)), t.__setitem__((9, 9), {1}))),
        ("empty a set in place", lambda t: t[(1, 1)].clear()),
        ("complete a block", lambda t: t.update(
            {(x, y): {1} for x in range(4, 8) for y in range(4, 8)})),
        ("break the block", lambda t: t[(5, 5)].discard(1)),
    ]
    for first in range(len(edits)):
        t = {(1, 1): {1}, (2, 2): {1, 2}, (3, 3): {1}, (40, 40): {3}}
        seq = edits[first:] + edits[:first]
        names = []
        for step in range(len(seq) + 1):
            acc.evaluations += 1
            acc.nontrivial += 1
            try:
                pairs = list(compress_flood_fill_regions(t))
                msg = check_pairs(pairs, {c: set(v) for c, v in t.items()})
            except Exception as e:
                msg = "raised %s: %s" % (type(e).__name__, e)
            if msg:
                acc.violation(dict(kind="same_object_history"),
                              dict(recipe=dict(same_object=first),
                                   desc="F9 same object"),
                              "one dictionary edited between calls (%s): "
                              "call %d: %s" % (", ".join(names) or "no edit "
                                               "yet", step + 1, msg),
                              size=step)
                break
            if step < len(seq):
                names.append(seq[step][0])
                try:
                    seq[step][1](t)
                except KeyError:
                    pass


def run_abandoned_history(acc):
    """A consumer gives up part-way through the stream of pairs (a send
    failed, or it only peeked at the first pair): the next request in the
    same process must still select exactly its own targets."""
    import gc
    from rig.machine_control.regions import (compress_flood_fill_regions,
                                             RegionCoreTree)
    pool = [p for p in F9_pool() if expand(p)]
    for ia, a in enumerate(pool):
        ta = expand(a)
        for k in (0, 1, 2, 5):
            for how in ("function", "tree"):
                acc.evaluations += 1
                try:
                    if how == "function":
                        it = iter(compress_flood_fill_regions(
                            {(x, y): set(cs) for x, y, cs in ta}))
                    else:
                        tree = RegionCoreTree()
                        for x, y, cs in ta:
                            for p in cs:
                                tree.add_core(x, y, p)
                        it = iter(tree.get_regions_and_coremasks())
                    for _ in range(k):
                        next(it, None)
                    if k == 5:
                        # abandoned but kept alive while the next request is
                        # served
                        keep = it
                    else:
                        del it
                        gc.collect(0)
                except Exception as e:
                    acc.violation(dict(kind="exception",
                                       exc=type(e).__name__),
                                  dict(recipe=dict(abandoned=True),
                                       desc="F9 abandoned"),
                                  "%s: %s" % (type(e).__name__, e))
                    continue
                for b in pool:
                    judge(dict(recipe=dict(abandoned=True, history=True),
                               desc="F9 after a %s stream for pool entry %d "
                               "was abandoned after %d pairs" % (how, ia, k),
                               targets=expand(b)), acc)
                    acc.nontrivial += 1


def F9_histories():
    pool = F9_pool()
    hs = [[a, b] for a in pool for b in pool]
    hs += [list(t) for t in itertools.permutations(pool[:2] + pool[4:6], 3)]
    return hs


def F9(tier, acc, upto=None):
    hs = F9_histories()
    for idx, h in enumerate(hs):
        if upto is not None and idx > upto:
            break
        acc.nontrivial += 1
        run_history(h, acc, idx)
    if upto is None:
        run_same_object_history(acc)
        run_abandoned_history(acc)
    acc.sample(dict(family="F9", histories=len(hs)))


def run_shard(params, tier, acc):
    f = params["f"]
    if f in ("F2a", "F2b", "F3", "F7"):
        globals()[f](params["k"], tier, acc)
    else:
        globals()[f](tier, acc)


def replay(case, acc):
    rec = case["recipe"]
    if "same_object" in rec:
        run_same_object_history(acc)
        return
    if "f10" in rec:
        F10("quick", acc)
        return
    if "abandoned" in rec:
        run_abandoned_history(acc)
        return
    if "history" in rec:
        # module state can only come from the calls made before it
        F9("quick", acc, upto=rec["f9_index"])
        return
    if "f8" in rec:
        F8("quick", acc)
        return
    if "chip" in rec:
        F7(rec["chip"][0] // 32, "quick", acc)
        return
    if "add" in rec:
        F6("quick", acc)
        return
    tg = expand(rec)
    judge(dict(recipe=rec, desc=case.get("desc", ""), targets=tg), acc)


def selftest():
    # decoder against hand-computed words
    assert decode(0x00030001) == (3, [(0, 0, 1)])
    assert decode(0x040B0003 | (1 << 5)) == (3, [(4, 8, 1), (5, 8, 1),
                                                 (5, 9, 1)])
    lv, rects = decode((16 << 24) | (32 << 16) | (2 << 16) | 0x8001)
    assert lv == 2 and rects == [(16, 32, 4), (28, 44, 4)]
    t = {(0, 0): {1}, (1, 0): {1}}
    assert check_pairs([(0x00030003, 2)], t) is None
    assert check_pairs([(0x00030001, 2)], t) is not None
    assert check_pairs([(0x00030003, 2), (0x00030001, 2)], t) is not None
    assert check_pairs([(0x00030007, 2)], t) is not None
