"""C07 - remote memory reads and writes are byte-exact for any address and
length.

E3 over (address alignment, length, buffer size, window) on the real
MachineController.read/write/fill/struct-field/link accessors against a
simulated machine whose memory holds a position-dependent pattern, crossed
with E1 datagram faults on one slice.  After every operation the whole
simulated memory must equal a byte-array model and the machine must have seen
no malformed command."""
import itertools
import os
import struct

from mc.explore import explore, Chooser
from mc.ctl import Session
from mc.sim import SimMachine, Memory, structs

PROPERTY = "C07"
LEVEL = "exploration"
TECHNIQUE = ("bounded-exhaustive enumeration of (address, length, buffer, "
             "window, chip/core, struct field) on the real controller over a "
             "simulated machine with a whole-memory comparison, plus "
             "deviation-bounded datagram faults")
RULE = ("buffer sizes {4,5,6,7,8,12,16,256} x window {1,2,3,8} x address mod "
        "4 at two bases x every length 0..3*buffer+3 (256: boundary lengths); "
        "every field of the sv and vcpu structs (cores 0,1,17); fills; link "
        "accesses; faults (request lost, reply lost, duplicated, slow, "
        "retryable answer, duplicated retryable answer) with "
        "<=1 (thorough 3) deviations on buffer 8 / windows 3 and 1 / lengths "
        "0..20 (40); sequence counter wrapping inside one transfer (losses, 2 "
        "deviations); two-operation histories with late replies; structs "
        "sharing field names; application core advertising another buffer; "
        "every read/write/fill command addressed to the named core. "
        "Non-trivial: length > 0; cases are distinct by construction")
ASSUMPTIONS = [
    "SimMachine implements SCP read/write/fill/link commands as described by "
    "the controller's docstrings (len//unit accesses of the given type)",
    "machines advertise buffers >= 4 bytes for link access",
]

BASES = (0x60000000, 0x7000fff8)
REPO = None


def repo():
    from mc.runner import REPO as R
    return R


def scope(tier):
    return dict(buffers=[4, 5, 6, 7, 8, 12, 16, 256], windows=[1, 2, 3, 8],
                fault_bound=1 if tier == "quick" else 3,
                fault_lengths=21 if tier == "quick" else 41,
                faults2_bound=2 if tier == "quick" else 3)


def shards(tier):
    out = []
    for b in scope(tier)["buffers"]:
        for w in scope(tier)["windows"]:
            out.append(dict(kind="rw", buffer=b, window=w))
    out.append(dict(kind="structs"))
    out.append(dict(kind="fill_link"))
    for op in ("read", "write"):
        for k in range(4 if tier == "quick" else 41):
            out.append(dict(kind="faults", op=op, k=k))
    for k in range(4):
        out.append(dict(kind="faults2", k=k))
    return out


def lengths_for(buf):
    if buf <= 16:
        return list(range(0, 3 * buf + 4))
    return [0, 1, 2, 3, 4, 5, 7, 8, buf - 4, buf - 1, buf, buf + 1, buf + 2,
            buf + 3, buf + 4, 2 * buf - 1, 2 * buf, 2 * buf + 1, 3 * buf + 2]


def pattern(n, seed):
    return bytes(((i * 37 + seed * 11 + 0x40) & 0xff) for i in range(n))


class Model(object):
    """Byte-array model of every chip's memory."""

    def __init__(self, sim):
        self.mem = {xy: Memory(c.mem.salt) for xy, c in sim.chips.items()}
        # adopt the pages the simulator initialised (system blocks)
        for xy, c in sim.chips.items():
            for n, p in c.mem.pages.items():
                self.mem[xy].pages[n] = bytearray(p)

    def diff(self, sim):
        for xy, c in sim.chips.items():
            m = self.mem[xy]
            for n in set(c.mem.pages) | set(m.pages):
                a = bytes(c.mem._page(n))
                b = bytes(m._page(n))
                if a != b:
                    i = next(i for i in range(len(a)) if a[i] != b[i])
                    return ("chip %r address %#x holds %#04x, expected %#04x"
                            % (xy, n * Memory.PAGE + i, a[i], b[i]))
        return None


def judge_op(acc, sim, model, case, fn, expect_bytes=None):
    """Run one controller operation; compare result, memory and monitor."""
    acc.evaluations += 1
    e0 = len(sim.errors)
    c0 = len(sim.cmds)
    try:
        res = fn()
    except Exception as e:
        acc.violation(dict(kind="exception", exc=type(e).__name__,
                           op=case["op"]), case,
                      "%s raised %s: %s" % (case["op"], type(e).__name__, e),
                      size=case.get("length", 0))
        return None
    if "p" in case and "chip" in case and case["op"] in ("read", "write",
                                                           "fill"):
        # the simulated chip has one memory for all its cores, so the core a
        # command is addressed to is checked on the command itself
        for rec in sim.cmds[c0:]:
            if rec["cmd"] in (2, 3, 5) and (tuple(rec["chip"]), rec["cpu"]) != (
                    tuple(case["chip"]), case["p"]):
                acc.violation(dict(kind="wrong_core", op=case["op"]), case,
                              "%s for chip %r core %r: a command was "
                              "addressed to chip %r core %r"
                              % (case["op"], case["chip"], case["p"],
                                 rec["chip"], rec["cpu"]),
                              size=case.get("length", 0))
                break
    if sim.errors[e0:]:
        acc.violation(dict(kind="malformed_command", op=case["op"]), case,
                      "%s: machine saw %s" % (case["op"], sim.errors[e0]),
                      size=case.get("length", 0))
    if expect_bytes is not None and res != expect_bytes:
        acc.violation(dict(kind="read_data", op=case["op"]), case,
                      "%s returned %r..., memory holds %r..."
                      % (case["op"], bytes(res)[:24], expect_bytes[:24]),
                      size=case.get("length", 0))
    d = model.diff(sim)
    if d:
        acc.violation(dict(kind="memory", op=case["op"]), case,
                      "%s: %s" % (case["op"], d), size=case.get("length", 0))
        # resynchronise so that later operations are judged on their own
        for xy, c in sim.chips.items():
            model.mem[xy].pages = {n: bytearray(p) for n, p in
                                   c.mem.pages.items()}
    return res


def run_rw(params, tier, acc):
    buf, win = params["buffer"], params["window"]
    sim = SimMachine(repo(), 2, 3, buffer_size=buf)
    with Session(sim, window=win) as s:
        mc = s.mc
        model = Model(sim)
        seed = 0
        for base in BASES:
            for off in range(4):
                addr = base + off
                for n in lengths_for(buf):
                    for (x, y, p) in (((0, 0, 0),) if (n > 12 and buf < 256)
                                      else ((0, 0, 0), (1, 2, 1),
                                            (1, 2, 17))):
                        seed += 1
                        if n:
                            acc.nontrivial += 2
                        case = dict(op="read", buffer=buf, window=win,
                                    address=addr, length=n, chip=[x, y], p=p)
                        want = model.mem[(x, y)].read(addr, n)
                        judge_op(acc, sim, model, case,
                                 lambda: mc.read(addr, n, x, y, p), want)
                        data = pattern(n, seed)
                        model.mem[(x, y)].write(addr, data)
                        case = dict(case, op="write", seed=seed)
                        judge_op(acc, sim, model, case,
                                 lambda: mc.write(addr, data, x, y, p))
        acc.sample(dict(kind="rw", buffer=buf, window=win,
                        commands_seen=len(sim.cmds)))
        acc.outcome("cmds<%d" % (10 ** len(str(len(sim.cmds)))))


def run_struct_names(acc):
    """A caller's struct file in which another struct re-uses field names of
    `sv` (other offsets and widths): every access goes to its own struct's
    field, whichever struct was used before."""
    import tempfile
    from rig.machine_control.struct_file import read_struct_file
    txt = open(os.path.join(repo(), "rig", "boot", "sark.struct"),
               "rb").read()
    txt += (b"\nname = stats\nsize = 32\nbase = 0x60003000\n\n"
            b"cpu_clk   V  0x04  %d  0\n"
            b"p2p_addr  C  0x09  %d  0\n"
            b"led0      v  0x0a  %d  0\n"
            b"mem_clk   V  0x10  %d  0\n")
    sts = read_struct_file(txt)
    mine = {"cpu_clk": ("<I", 0x60003004), "p2p_addr": ("<B", 0x60003009),
            "led0": ("<H", 0x6000300a), "mem_clk": ("<I", 0x60003010)}
    ref = structs(repo())["sv"]
    names = sorted(mine)
    for order in itertools.permutations(("sv", "stats")):
        sim = SimMachine(repo(), 2, 2, buffer_size=256)
        with Session(sim, structs=sts) as s:
            mc = s.mc
            model = Model(sim)
            k = 0
            for fname in names:
                for sname in order + order:
                    k += 1
                    acc.nontrivial += 2
                    if sname == "sv":
                        fmt, off = ref["fields"][fname][:2]
                        fmt, addr = "<" + fmt, ref["base"] + off
                    else:
                        fmt, addr = mine[fname]
                    size = struct.calcsize(fmt)
                    val = (0x11223344 * k + 7) & ((1 << (8 * size)) - 1)
                    model.mem[(1, 1)].write(addr, struct.pack(fmt, val))
                    case = dict(op="write_field", struct=sname, field=fname,
                                order=list(order))
                    judge_op(acc, sim, model, case,
                             lambda: mc.write_struct_field(sname, fname, val,
                                                           1, 1))
                    got = judge_op(acc, sim, model,
                                   dict(case, op="read_field"),
                                   lambda: mc.read_struct_field(sname, fname,
                                                                1, 1))
                    if got is not None and got != val:
                        acc.violation(dict(kind="field_value",
                                           op="read_field"), case,
                                      "%s.%s read back as %r, wrote %r"
                                      % (sname, fname, got, val))


def run_structs(params, tier, acc):
    run_struct_names(acc)
    sim = SimMachine(repo(), 2, 2, buffer_size=256)
    st = structs(repo())
    with Session(sim) as s:
        mc = s.mc
        model = Model(sim)
        for sname in ("sv", "vcpu"):
            for fname, (fmt, off, default, length) in sorted(
                    st[sname]["fields"].items()):
                for (x, y) in ((0, 0), (1, 1)):
                    for p in ((0,) if sname == "sv" else (0, 1, 17)):
                        chip = sim.chips[(x, y)]
                        if sname == "sv":
                            addr = st["sv"]["base"] + off
                        else:
                            addr = chip.vcpu_base + st["vcpu"]["size"] * p + \
                                off
                        if sname == "vcpu" and length != 1 and \
                                not fmt.endswith("s"):
                            continue      # padding arrays: not meaningful
                        full = "<" + (fmt if fmt.endswith("s")
                                      else fmt * length)
                        size = struct.calcsize(full)
                        raw = model.mem[(x, y)].read(addr, size)
                        vals = struct.unpack(full, raw)
                        acc.nontrivial += 1
                        case = dict(op="read_field", struct=sname,
                                    field=fname, chip=[x, y], p=p)
                        if sname == "sv":
                            got = judge_op(
                                acc, sim, model, case,
                                lambda: mc.read_struct_field(sname, fname,
                                                             x, y))
                        else:
                            got = judge_op(
                                acc, sim, model, case,
                                lambda: mc.read_vcpu_struct_field(fname, x, y,
                                                                  p))
                        if got is not None:
                            want = vals[0] if length == 1 else vals
                            if fmt.endswith("s"):
                                want = vals[0].strip(b"\x00").decode(
                                    "utf-8", "replace")
                                if isinstance(got, bytes):
                                    got = got.strip(b"\x00").decode(
                                        "utf-8", "replace")
                            if got != want and not (
                                    fmt.endswith("s") and sname == "sv"):
                                acc.violation(
                                    dict(kind="field_value", struct=sname),
                                    case, "%s.%s on %r core %d read as %r, "
                                    "memory at %#x holds %r"
                                    % (sname, fname, (x, y), p, got, addr,
                                       want))
                        # write a marker value
                        if fmt.endswith("s"):
                            if sname == "sv":
                                continue
                            # a name longer than the field is cut to the
                            # field: the bytes after it are not touched
                            for longname in ("q" * 16, "r" * 17, "s" * 25):
                                pk = struct.pack(full, longname.encode())
                                model.mem[(x, y)].write(addr, pk)
                                judge_op(acc, sim, model,
                                         dict(case, op="write_field",
                                              value=longname),
                                         lambda: mc.write_vcpu_struct_field(
                                             fname, longname, x, y, p))
                            nv = "ab"
                            packed = struct.pack(full, b"ab")
                        else:
                            hi = {"b": 0x55, "B": 0xa5, "H": 0xa55a,
                                  "I": 0xa5a55a5a}[fmt]
                            nv = hi if length == 1 else tuple(
                                (hi + i) & 0xff for i in range(length))
                            packed = struct.pack(
                                full, *([nv] if length == 1 else nv))
                        if sname == "sv" and fname in ("vcpu_base",):
                            continue
                        if sname == "vcpu" and length != 1 and \
                                not fmt.endswith("s"):
                            continue
                        model.mem[(x, y)].write(addr, packed)
                        case = dict(case, op="write_field")
                        if sname == "sv":
                            judge_op(acc, sim, model, case,
                                     lambda: mc.write_struct_field(
                                         sname, fname, nv, x, y))
                        else:
                            judge_op(acc, sim, model, case,
                                     lambda: mc.write_vcpu_struct_field(
                                         fname, nv, x, y, p))
        acc.sample(dict(kind="structs", sv_fields=len(st["sv"]["fields"]),
                        vcpu_fields=len(st["vcpu"]["fields"])))


def run_sver_first(acc):
    """The first thing a fresh controller is asked is the software version
    of an APPLICATION core that advertises a larger buffer than the machine's
    monitor: transfers still stay within the machine's figure."""
    for first in (None, (0, 0, 3), (1, 1, 5)):
        sim = SimMachine(repo(), 2, 2, buffer_size=8)
        sim.app_buffer_size = 24
        with Session(sim, window=2) as s:
            mc = s.mc
            model = Model(sim)
            if first is not None:
                info = mc.get_software_version(*first)
                if info.buffer_size != 24:
                    acc.violation(dict(kind="sver_buffer"), dict(
                        op="sver_first", first=list(first)),
                        "core %r advertises 24, reported %r"
                        % (first, info.buffer_size))
            for n in (20, 33):
                case = dict(op="read", sver_first=list(first or []),
                            address=0x60000001, length=n)
                want = model.mem[(1, 0)].read(0x60000001, n)
                judge_op(acc, sim, model, case,
                         lambda: mc.read(0x60000001, n, 1, 0, 0), want)
                data = pattern(n, 3)
                model.mem[(1, 0)].write(0x60000001, data)
                judge_op(acc, sim, model, dict(case, op="write"),
                         lambda: mc.write(0x60000001, data, 1, 0, 0))
            acc.nontrivial += 4


def run_fill_link(params, tier, acc):
    run_sver_first(acc)
    for buf in (4, 5, 7, 8, 12, 16, 256):
        sim = SimMachine(repo(), 3, 3, buffer_size=buf)
        with Session(sim) as s:
            mc = s.mc
            model = Model(sim)
            # fills
            for addr in (0x60001000, 0x60001001, 0x60001002, 0x60001003):
                for size in range(0, 14):
                    for val in (0, 0xab, 0xdeadbeef):
                        if val > 0xff and (addr % 4 or size % 4):
                            continue     # a word only when all is aligned
                        for (x, y, p) in ((0, 0, 0), (2, 1, 3)):
                            acc.nontrivial += 1
                            if addr % 4 or size % 4:
                                exp = bytes([val]) * size
                            else:
                                exp = struct.pack("<I", val) * (size // 4)
                            model.mem[(x, y)].write(addr, exp)
                            case = dict(op="fill", buffer=buf, address=addr,
                                        length=size, value=val, chip=[x, y],
                                        p=p)
                            judge_op(acc, sim, model, case,
                                     lambda: mc.fill(addr, val, size, x, y,
                                                     p))
            # link accesses: whole words
            seed = 0
            for link in range(6):
                for (x, y) in ((0, 0), (2, 2)):
                    vx, vy = {0: (1, 0), 1: (1, 1), 2: (0, 1), 3: (-1, 0),
                              4: (-1, -1), 5: (0, -1)}[link]
                    nb = ((x + vx) % 3, (y + vy) % 3)
                    for nwords in list(range(0, 10)) + [
                            3 * (buf // 4) + 1]:
                        n = 4 * nwords
                        addr = 0x60002000
                        seed += 1
                        acc.nontrivial += 2
                        case = dict(op="read_across_link", buffer=buf,
                                    address=addr, length=n, chip=[x, y],
                                    link=link)
                        want = model.mem[nb].read(addr, n)
                        judge_op(acc, sim, model, case,
                                 lambda: mc.read_across_link(addr, n, x, y,
                                                             link), want)
                        data = pattern(n, seed)
                        model.mem[nb].write(addr, data)
                        case = dict(case, op="write_across_link", seed=seed)
                        judge_op(acc, sim, model, case,
                                 lambda: mc.write_across_link(addr, data, x,
                                                              y, link))
        acc.sample(dict(kind="fill_link", buffer=buf))


from mc.fakenet import Net as _Net
LAT = _Net.LATENCY
FATES = ["ok", "lost", "reply_lost", "dup", "slow", "busy", "busy_dup"]
FATES2 = FATES[:6] + [("late", 700), ("late", 1300)] + FATES[6:]


def run_faults(params, tier, acc):
    """Reads/writes of 0..20 bytes, buffer 8, window 3, with every datagram
    fate sequence of <= bound deviations."""
    bound = scope(tier)["fault_bound"]
    op = params["op"]
    k = params["k"]
    nl = scope(tier)["fault_lengths"]
    for n in range(0, nl):
        if (n % 4 != k) if tier == "quick" else (n != k):
            continue
        for addr in (0x60000000, 0x60000001):
            for window in (3, 1):
                case = dict(op=op + "_faults", buffer=8, window=window,
                            address=addr, length=n)
                if n:
                    acc.nontrivial += 1

                def run(ch, case=case):
                    one_fault_execution(case, ch, acc)
                explore(run, bound=bound, budget=300)
    # Sequence numbers wrap within one transfer (the connection's own
    # generator with a 2-bit mask): five or six blocks, window 3, two
    # datagrams lost.  Only losses - no duplicate or delayed reply ever
    # exists, so the stale-reply finding D8 (C06) cannot interfere.
    if k == 0:
        for n in (40, 43):
            case = dict(op=op + "_faults", buffer=8, window=3,
                        address=0x60000000, length=n, seqmask=3,
                        fates=["ok", "lost", "reply_lost"])
            acc.nontrivial += 1

            def run(ch, case=case):
                one_fault_execution(case, ch, acc)
            explore(run, bound=2, budget=400)
    acc.sample(dict(kind="faults", op=op, k=k, lengths_below=nl,
                    bound=bound))


def one_fault_execution(case, ch, acc):
    sim = SimMachine(repo(), 1, 1, buffer_size=8)
    skip = [2]          # the first datagram (sver) is not subjected to faults

    fates_taken = []

    def fate(sim_, rec):
        if rec["cmd"] == 0:
            return ["ok"]
        menu = case.get("fates") or FATES
        f = menu[ch.choose(len(menu), "fate")]
        fates_taken.append(f)
        if f == "dup":
            return ["ok", "dup"]
        if f == "busy_dup":
            # the retryable answer is duplicated by the network; the second
            # copy arrives a little later (in this operation or, in the
            # two-operation histories, during the next one)
            return ["busy", ("busy_late", 3 * LAT)]
        return [f]
    sim.fate = fate
    n, addr = case["length"], case["address"]
    with Session(sim, window=case.get("window", 3), n_tries=3,
                 timeout=0.5) as s:
        if case.get("seqmask") is not None:
            from rig.machine_control.scp_connection import seqs
            for conn in s.mc.connections.values():
                conn.seq = seqs(mask=case["seqmask"])
        model = Model(sim)
        c = dict(case, choices=None)
        if case["op"].startswith("read"):
            want = model.mem[(0, 0)].read(addr, n)
            fn = lambda: s.mc.read(addr, n, 0, 0, 0)   # noqa
        else:
            data = pattern(n, 5)
            model.mem[(0, 0)].write(addr, data)
            want = None
            fn = lambda: s.mc.write(addr, data, 0, 0, 0)   # noqa
        acc.evaluations += 1
        from rig.machine_control.scp_connection import TimeoutError as TE
        e0 = len(sim.errors)
        try:
            res = fn()
        except TE as e:
            acc.outcome("timeout")
            # a command is given up only after n_tries (3) transmissions
            # without an answer: fewer faults than that cannot justify it
            n_faults = sum(1 for f in fates_taken if f in (
                "lost", "reply_lost", "busy", "busy_dup"))
            if n_faults < 3:
                acc.violation(dict(kind="unjustified_timeout",
                                   op=case["op"]),
                              dict(case, choices=list(ch.choices)),
                              "%s raised TimeoutError (%s) although only %d "
                              "datagrams were lost or refused (fates %r); "
                              "n_tries is 3" % (case["op"], e, n_faults,
                                                fates_taken))
            return
        except Exception as e:
            acc.violation(dict(kind="exception", exc=type(e).__name__,
                               op=case["op"]),
                          dict(case, choices=list(ch.choices)),
                          "%s under faults raised %s: %s"
                          % (case["op"], type(e).__name__, e))
            return
        acc.outcome("completed")
        c = dict(case, choices=list(ch.choices))
        if sim.errors[e0:]:
            acc.violation(dict(kind="malformed_command", op=case["op"]), c,
                          "machine saw %s" % sim.errors[e0])
        if want is not None and res != want:
            acc.violation(dict(kind="read_data", op=case["op"]), c,
                          "read under faults returned %r, memory holds %r"
                          % (res, want))
        d = model.diff(sim)
        if d:
            acc.violation(dict(kind="memory", op=case["op"]), c,
                          "write under faults: " + d)


def run_faults2(params, tier, acc):
    """Two consecutive operations on one controller: replies delayed past
    the end of the first operation arrive during the second."""
    k = params["k"]
    pairs = [(("read", 0x60000000, 20), ("read", 0x60000100, 20)),
             (("read", 0x60000001, 9), ("write", 0x60000200, 17)),
             (("write", 0x60000000, 20), ("read", 0x60000000, 20)),
             (("write", 0x60000003, 5), ("write", 0x60000103, 21))]
    n = 0
    for window in (3, 1):
        # (window 1 is the controller's default)
        case = dict(op="two_ops_faults", ops=[list(o) for o in pairs[k]],
                    window=window)

        def run(ch, case=case):
            two_ops_execution(case, ch, acc)
        n += explore(run, bound=scope(tier)["faults2_bound"], budget=300)
    acc.nontrivial += n
    acc.sample(dict(kind="faults2", ops=case["ops"], executions=n))


def two_ops_execution(case, ch, acc):
    from rig.machine_control.scp_connection import TimeoutError as TE
    sim = SimMachine(repo(), 1, 1, buffer_size=8)

    fates_taken = []

    def fate(sim_, rec):
        if rec["cmd"] == 0:
            return ["ok"]
        f = FATES2[ch.choose(len(FATES2), "fate")]
        fates_taken.append(f)
        if f == "dup":
            return ["ok", "dup"]
        if f == "busy_dup":
            return ["busy", ("busy_late", 3 * LAT)]
        return [f]
    sim.fate = fate
    with Session(sim, window=case.get("window", 3), n_tries=3,
                 timeout=0.5) as s:
        model = Model(sim)
        acc.evaluations += 1
        for i, (op, addr, n) in enumerate(case["ops"]):
            c = dict(case, choices=list(ch.choices), step=i)
            e0 = len(sim.errors)
            try:
                if op == "read":
                    want = model.mem[(0, 0)].read(addr, n)
                    res = s.mc.read(addr, n, 0, 0, 0)
                else:
                    data = pattern(n, 5 + i)
                    want = None
                    res = s.mc.write(addr, data, 0, 0, 0)
                    model.mem[(0, 0)].write(addr, data)
            except TE as e:
                acc.outcome("timeout")
                n_faults = sum(1 for f in fates_taken
                               if f in ("lost", "reply_lost", "busy",
                                        "busy_dup") or
                               isinstance(f, tuple))
                if n_faults < 3:
                    acc.violation(dict(kind="unjustified_timeout",
                                       op="two_ops"),
                                  dict(case, choices=list(ch.choices)),
                                  "operation %d raised TimeoutError (%s) "
                                  "although only %d datagrams were lost, "
                                  "refused or late (fates %r); n_tries is 3"
                                  % (i, e, n_faults, fates_taken))
                return
            except Exception as e:
                acc.violation(dict(kind="exception", exc=type(e).__name__,
                                   op="two_ops"),
                              dict(case, choices=list(ch.choices)),
                              "operation %d (%s) raised %s: %s"
                              % (i, op, type(e).__name__, e))
                return
            c = dict(case, choices=list(ch.choices))
            if sim.errors[e0:]:
                acc.violation(dict(kind="malformed_command", op="two_ops"),
                              c, "machine saw %s" % sim.errors[e0])
            if want is not None and res != want:
                acc.violation(dict(kind="read_data", op="two_ops"), c,
                              "operation %d: read of %d bytes at %#x "
                              "returned %r, memory holds %r (fates %r)"
                              % (i, n, addr, res, want, list(ch.choices)))
                return
            d = model.diff(sim)
            if d:
                acc.violation(dict(kind="memory", op="two_ops"), c,
                              "after operation %d: %s" % (i, d))
                return
        acc.outcome("completed2")


def run_shard(params, tier, acc):
    k = params["kind"]
    if k == "faults2":
        run_faults2(params, tier, acc)
        return
    if k == "rw":
        run_rw(params, tier, acc)
    elif k == "structs":
        run_structs(params, tier, acc)
    elif k == "fill_link":
        run_fill_link(params, tier, acc)
    else:
        run_faults(params, tier, acc)


def replay(case, acc):
    op = case["op"]
    if op == "two_ops_faults":
        two_ops_execution({k: v for k, v in case.items()
                           if k not in ("choices", "step")},
                          Chooser(case.get("choices") or []), acc)
        return
    if op.endswith("_faults"):
        one_fault_execution({k: v for k, v in case.items() if k != "choices"},
                            Chooser(case.get("choices") or []), acc)
    elif "sver_first" in case:
        run_sver_first(acc)
    elif op in ("read", "write"):
        run_rw(dict(buffer=case["buffer"], window=case["window"]), "quick",
               acc)
    elif op in ("read_field", "write_field"):
        run_structs({}, "quick", acc)
    else:
        run_fill_link({}, "quick", acc)


def selftest():
    m = Memory(3)
    a = m.read(0x100, 600)
    m.write(0x1fe, b"abcd")
    assert m.read(0x1fe, 4) == b"abcd" and m.read(0x100, 0xfe) == a[:0xfe]
    st = structs(repo())
    assert st["sv"]["base"] == 0xf5007f00 and st["vcpu"]["size"] == 128
    assert "cpu_state" in st["vcpu"]["fields"]
