"""C03 - routing trees are loop-free, connected, use only live hardware.

Bounded-exhaustive enumeration (E3) of small machines with every set of dead
chips / dead directed links up to a bound, every source and every small sink
set, several radii, with the router's random tie-breaks owned (E5) and
explored to a deviation bound (E1).  The real `route()` is run on each and the
returned tree is walked by an independent oracle."""
import itertools

from mc.explore import explore, FakeRandom, Chooser
from oracles.pr import M, wrap_links, all_links, walk_tree, LINK_NAMES

PROPERTY = "C03"
LEVEL = "exploration"
TECHNIQUE = ("bounded-exhaustive enumeration of faulty small machines x nets "
             "x radii with deviation-bounded exploration of owned random "
             "tie-breaks; independent tree-walk oracle on the real router")
RULE = ("families of machines (tiny tori with every set of <=3 dead directed "
        "links, 3x2/3x3 tori, 3x3/4x4 meshes, almost-tori below the 90% "
        "wrap-link threshold) x <=1-2 dead chips x every source x every sink "
        "set of <=2 (meshes <=3) chips x radii; a case is non-trivial when "
        "the machine has at least one fault and the net leaves the source "
        "chip; machines/nets are distinct by construction")
ASSUMPTIONS = [
    "placements put vertices on working chips (precondition of route())",
    "random() is used only as tie-break noise; draws beyond the deviation "
    "bound follow one fixed fair stream",
]


def scope(tier):
    q = tier == "quick"
    return dict(
        tiny=dict(sizes=[[1, 1], [2, 1], [1, 2], [3, 1], [1, 3]],
                  max_dead_links=3 if q else 4, max_dead_chips=1,
                  tiebreak_bound=1 if q else 2,
                  bound0_from_links=3),
        small=dict(sizes=[[2, 2], [4, 1], [1, 4]], max_dead_links=2 if q else 3,
                   max_dead_chips=1, tiebreak_bound=0 if q else 1),
        t32=dict(sizes=[[3, 2], [2, 3]], max_dead_links=1 if q else 2,
                 max_dead_chips=1, tiebreak_bound=1 if q else 0),
        t33=dict(sizes=[[3, 3]], max_dead_links=1 if q else 2,
                 max_dead_chips=1, tiebreak_bound=0),
        m33=dict(sizes=[[3, 3]], mesh=True, max_dead_links=1 if q else 2,
                 max_dead_chips=1, max_sinks=3, tiebreak_bound=0),
        m44=dict(sizes=[[4, 4]], mesh=True, max_dead_links=0 if q else 1,
                 max_dead_chips=1, tiebreak_bound=0),
        almost=dict(sizes=[[3, 3]], forced_dead_wrap=3,
                    max_dead_links=1 if q else 2, max_dead_chips=0,
                    tiebreak_bound=0 if q else 1),
        # tree-focused families: the fault-free tree of the net is computed
        # first (real router, default tie-breaks); then every subset S of the
        # tree's own links (|S| <= max_tree_links) is killed together with
        # every set X of <= extra_links other links
        tf33=dict(sizes=[[3, 3]], max_dead_chips=1,
                  max_tree_links=3 if q else 4,
                  extra_links=0, max_sinks=2, tiebreak_bound=1),
        tf33m=dict(sizes=[[3, 3]], mesh=True, max_dead_chips=1,
                   max_tree_links=3 if q else 4, extra_links=0, max_sinks=2,
                   tiebreak_bound=1),
        tf33x=dict(sizes=[[3, 3]], max_dead_chips=1, exact_tree_links=2,
                   extra_links=1, max_sinks=1 if q else 2, tiebreak_bound=1,
                   radii=[20]),
        tf44m=dict(sizes=[[4, 4]], mesh=True, max_dead_chips=0,
                   max_tree_links=2 if q else 3, extra_links=0,
                   max_sinks=2, tiebreak_bound=0 if q else 1),
        # "walls": every link crossing between two columns (or rows) is dead
        # except the links of one row, in one or both directions: long A*
        # detours through other subtrees
        walls=dict(sizes=[[4, 3], [5, 3]] if q else [[4, 3], [5, 3], [5, 5],
                                                      [6, 2], [3, 5]],
                   mesh=True, max_sinks=2, tiebreak_bound=0),
        leaves=dict(note="2x2 fault-free, every kind assignment, duplicated "
                         "sinks, self loops"),
        radii=[0, 20] if q else [0, 1, 2, 20])


FAMILIES = ("tiny", "small", "t32", "t33", "m33", "m44", "almost", "walls")
TF_FAMILIES = ("tf33", "tf33m", "tf33x", "tf44m")
K = 16


def shards(tier):
    out = []
    for fam in FAMILIES + TF_FAMILIES:
        for k in range(K):
            out.append(dict(fam=fam, k=k))
    out.append(dict(fam="leaves", k=0))
    out.append(dict(fam="long", k=0))
    out += [dict(fam="mhist", k=k) for k in range(K)]
    return out


# ------------------------------------------------------------------ machines
def subsets(items, maxn):
    for n in range(maxn + 1):
        for c in itertools.combinations(items, n):
            yield c


def wall_machines(tier):
    sc = scope(tier)["walls"]
    for w, h in sc["sizes"]:
        base = sorted(wrap_links(w, h))
        for axis in (0, 1):
            n = w if axis == 0 else h
            for c in range(n - 1):
                # links crossing between coordinate c and c+1 on that axis
                cross = []
                for (x, y, l) in all_links(w, h):
                    if (x, y, l) in set(base):
                        continue
                    dx, dy = {0: (1, 0), 1: (1, 1), 2: (0, 1), 3: (-1, 0),
                              4: (-1, -1), 5: (0, -1)}[l]
                    a = (x, y)[axis]
                    b = a + (dx, dy)[axis]
                    if {a, b} == {c, c + 1}:
                        cross.append((x, y, l))
                other = h if axis == 0 else w
                for gap in range(other):
                    for mode in ("both", "forward_only", "none_but_diagonal"):
                        keep = []
                        for (x, y, l) in cross:
                            r = (x, y)[1 - axis]
                            if mode == "none_but_diagonal":
                                if r == gap and l in (1, 4):
                                    keep.append((x, y, l))
                            elif r == gap and l in ((0, 3) if axis == 0
                                                    else (2, 5)):
                                if mode == "both" or l in (0, 2):
                                    keep.append((x, y, l))
                        dead = [k for k in cross if k not in keep]
                        yield (w, h, [], base + dead)


def machines(fam, tier):
    if fam == "walls":
        for m_ in wall_machines(tier):
            yield m_
        return
    sc = scope(tier)[fam]
    for w, h in sc["sizes"]:
        links = all_links(w, h)
        base = []
        if sc.get("mesh"):
            wl = wrap_links(w, h)
            base = sorted(wl)
            links = [l for l in links if l not in wl]
        if sc.get("forced_dead_wrap"):
            wl = sorted(wrap_links(w, h))
            # three wrap links in one corner: drops the working proportion
            # below 90% so that the router plans in mesh mode while wrap links
            # still exist
            base = [(0, 0, 5), (0, 0, 4), (0, 0, 3)]
            links = [l for l in links if l not in base]
        chips = [(x, y) for x in range(w) for y in range(h)]
        for dcs in subsets(chips, sc["max_dead_chips"]):
            if len(dcs) == len(chips):
                continue
            for dls in subsets(links, sc["max_dead_links"]):
                yield (w, h, list(dcs), base + list(dls))


SINK_KINDS = ("cores", "endpoint", "none")


def build_net(src, sinks, kinds):
    """-> vertices_resources, nets, constraints, placements, allocations,
    expected leaves {(chip, route, vertex)}"""
    from rig.netlist import Net
    from rig.place_and_route import Cores
    from rig.place_and_route.constraints import RouteEndpointConstraint
    from rig.routing_table import Routes
    placements = {"s": tuple(src)}
    allocations = {"s": {Cores: slice(0, 1)}}
    vr = {"s": {Cores: 1}}
    constraints = []
    expected = set()
    sink_vs = []
    for i, (chip, kind) in enumerate(zip(sinks, kinds)):
        chip = tuple(chip)
        if kind == "self":
            sink_vs.append("s")
            expected.add((tuple(src), 6, "s"))
            continue
        if kind == "dup":
            sink_vs.append(sink_vs[-1])
            continue
        v = "t%d" % i
        placements[v] = chip
        sink_vs.append(v)
        if kind == "cores":
            allocations[v] = {Cores: slice(1 + i, 3 + i)}
            vr[v] = {Cores: 2}
            expected.add((chip, 6 + 1 + i, v))
            expected.add((chip, 6 + 2 + i, v))
        elif kind in ("endpoint", "endpoint0"):
            vr[v] = {}
            # a device vertex may be declared with zero cores: the endpoint
            # constraint still decides where its packets go
            allocations[v] = {} if kind == "endpoint" else \
                {Cores: slice(0, 0)}
            constraints.append(RouteEndpointConstraint(v, Routes(2)))
            expected.add((chip, 2, v))
        else:
            vr[v] = {}
            expected.add((chip, None, v))
    # the weight of a net says nothing about where its tree may go
    net = Net("s", sink_vs, (1.0, 0.0, 3.0)[len(sink_vs) % 3])
    return vr, [net], constraints, placements, allocations, expected


def build_two_nets(src, sinks, kinds):
    """Two nets in one route() call whose sources share a chip and whose
    sinks sit on the same chips (different vertices, different cores)."""
    from rig.netlist import Net
    from rig.place_and_route import Cores
    vr, nets, cons, pl, al, exp = build_net(src, sinks, kinds)
    pl["s2"] = tuple(src)
    al["s2"] = {Cores: slice(10, 11)}
    vr["s2"] = {Cores: 1}
    exp2 = set()
    sv = []
    for i, chip in enumerate(sinks):
        v = "u%d" % i
        pl[v] = tuple(chip)
        al[v] = {Cores: slice(12 + i, 13 + i)}
        vr[v] = {Cores: 1}
        sv.append(v)
        exp2.add((tuple(chip), 6 + 12 + i, v))
    nets.append(Net("s2", sv, 0.0))
    return vr, nets, cons, pl, al, [exp, exp2]


def run_case(case, acc, bound, count=True, machine_obj=None):
    """Explore one (machine, net, radius) under owned tie-breaks."""
    from rig.place_and_route.route import ner
    from rig.place_and_route.route import utils as rutils
    from rig import geometry
    from rig.place_and_route.exceptions import MachineHasDisconnectedSubregion
    from rig.place_and_route.routing_tree import RoutingTree
    m = M(case["w"], case["h"], case["dead_chips"], case["dead_links"])
    connected = case.get("_connected")
    if connected is None:
        connected = m.strongly_connected()
    machine = m.to_rig() if machine_obj is None else machine_obj
    saved = geometry.random, rutils.random

    def run(ch):
        fr = FakeRandom(ch, menu=3)
        geometry.random = rutils.random = fr
        if case.get("two_nets"):
            vr, nets, cons, pl, al, expected_list = build_two_nets(
                case["src"], case["sinks"], case["kinds"])
        else:
            vr, nets, cons, pl, al, expected = build_net(
                case["src"], case["sinks"], case["kinds"])
            expected_list = [expected]
        acc.evaluations += 1
        acc.add("executions_" + case.get("_fam", "x"))
        try:
            try:
                if case["radius"] == 0:
                    # the caller's own core resource; what a vertex holds
                    # under the built-in Cores name is a decoy
                    from rig.place_and_route import Cores as _C
                    vr = {v: {("app_cores" if k is _C else k): n
                              for k, n in d.items()} for v, d in vr.items()}
                    al = {v: dict([(("app_cores" if k is _C else k), sl)
                                   for k, sl in d.items()] +
                                  ([(_C, slice(15, 17))] if d else []))
                          for v, d in al.items()}
                    routes = ner.route(vr, nets, machine, cons, pl, al,
                                       core_resource="app_cores",
                                       radius=0)
                else:
                    routes = ner.route(vr, nets, machine, cons, pl, al,
                                       radius=case["radius"])
            finally:
                geometry.random, rutils.random = saved
        except MachineHasDisconnectedSubregion as e:
            acc.outcome("disconnected_error")
            if connected:
                acc.violation(
                    dict(kind="spurious_disconnected"),
                    dict(case, choices=list(ch.choices)),
                    "route() raised MachineHasDisconnectedSubregion (%s) but "
                    "every working chip can reach every other over working "
                    "links" % e, size=csize(case))
            return
        except Exception as e:
            acc.violation(dict(kind="exception", exc=type(e).__name__),
                          dict(case, choices=list(ch.choices)),
                          "route() raised %s: %s" % (type(e).__name__, e),
                          size=csize(case))
            return
        acc.outcome("routed")
        c = dict(case, choices=list(ch.choices))
        if set(routes) != set(nets):
            acc.violation(dict(kind="nets"), c, "routes for wrong net set",
                          size=csize(case))
            return
        for net, expected in zip(nets, expected_list):
            root = routes[net]
            if not isinstance(root, RoutingTree) or \
                    tuple(root.chip) != tuple(case["src"]):
                acc.violation(dict(kind="root"), c,
                              "tree is rooted at %r, source is on %r"
                              % (getattr(root, "chip", root), case["src"]),
                              size=csize(case))
                return
            err, leaves = walk_tree(root, m,
                                    lambda o: isinstance(o, RoutingTree))
            if err:
                kind = ("twice" if "twice" in err else
                        "dead" if "dead" in err else "edge")
                acc.violation(dict(kind="tree_" + kind), c, err + "\n" +
                              describe(case), size=csize(case))
                return
            got = set(leaves)
            if got != expected:
                acc.violation(dict(kind="leaves"), c,
                              "net from %r: leaves %r, expected %r"
                              % (net.source, sorted(got, key=repr),
                                 sorted(expected, key=repr)),
                              size=csize(case))
                return
    try:
        n = explore(run, bound=bound, budget=400)
    finally:
        geometry.random, rutils.random = saved
    return n


def describe(case):
    return ("%dx%d dead chips %r dead links %r source %r sinks %r radius %r"
            % (case["w"], case["h"], case["dead_chips"],
               [(x, y, LINK_NAMES[l]) for x, y, l in case["dead_links"]],
               case["src"], case["sinks"], case["radius"]))


def csize(case):
    return (case["w"] * case["h"] * 100 + len(case["dead_links"]) * 10 +
            len(case["dead_chips"]) * 10 + len(case["sinks"]))


def run_family(fam, k, tier, acc):
    sc = scope(tier)
    bound = sc[fam].get("tiebreak_bound", 0)
    max_sinks = sc[fam].get("max_sinks", 2)
    radii = sc["radii"]
    i = -1
    for (w, h, dcs, dls) in machines(fam, tier):
        i += 1
        if i % K != k:
            continue
        m = M(w, h, dcs, dls)
        connected = m.strongly_connected()
        faulty = bool(dcs or dls)
        for src in m.chips:
            for ns in range(1, max_sinks + 1):
                for sinks in itertools.combinations(m.chips, ns):
                    kinds = [SINK_KINDS[j % 3] for j in range(ns)]
                    for radius in radii:
                        case = dict(w=w, h=h, dead_chips=[list(c) for c in dcs],
                                    dead_links=[list(l) for l in dls],
                                    src=list(src), sinks=[list(s) for s in
                                                          sinks],
                                    kinds=kinds, radius=radius,
                                    _connected=connected, _fam=fam)
                        if faulty and any(s != src for s in sinks):
                            acc.nontrivial += 1
                        b = bound
                        if len(dls) >= sc[fam].get("bound0_from_links", 99):
                            b = 0
                        run_case(case, acc, b)
        if i % 97 == 0:
            acc.sample(dict(fam=fam, w=w, h=h, dead_chips=dcs,
                            dead_links=[(x, y, LINK_NAMES[l])
                                        for x, y, l in dls],
                            strongly_connected=connected))


def tree_links(case):
    """Links (x, y, l) of the tree the real router builds for `case` with the
    default tie-break stream (None if it fails)."""
    from rig.place_and_route.route import ner
    from rig.place_and_route.route import utils as rutils
    from rig import geometry
    from rig.place_and_route.routing_tree import RoutingTree
    m = M(case["w"], case["h"], case["dead_chips"], case["dead_links"])
    saved = geometry.random, rutils.random
    geometry.random = rutils.random = FakeRandom(Chooser(), menu=3)
    try:
        vr, nets, cons, pl, al, _ = build_net(case["src"], case["sinks"],
                                              case["kinds"])
        routes = ner.route(vr, nets, m.to_rig(), cons, pl, al,
                           radius=case["radius"])
    except Exception:
        return None
    finally:
        geometry.random, rutils.random = saved
    out = []
    stack = [routes[nets[0]]]
    while stack and len(out) < 100:
        node = stack.pop()
        for r, o in node.children:
            if isinstance(o, RoutingTree):
                out.append((node.chip[0], node.chip[1], int(r)))
                stack.append(o)
    return sorted(set(out))


def run_tf(fam, k, tier, acc):
    sc = scope(tier)
    f = sc[fam]
    bound = f["tiebreak_bound"]
    radii = f.get("radii", sc["radii"])
    i = -1
    for w, h in f["sizes"]:
        base = sorted(wrap_links(w, h)) if f.get("mesh") else []
        every = [l for l in all_links(w, h) if l not in set(base)]
        chips = [(x, y) for x in range(w) for y in range(h)]
        for dcs in subsets(chips, f["max_dead_chips"]):
            m0 = M(w, h, dcs, base)
            for src in m0.chips:
                for ns in range(1, f["max_sinks"] + 1):
                    for sinks in itertools.combinations(m0.chips, ns):
                        i += 1
                        if i % K != k:
                            continue
                        kinds = [SINK_KINDS[j % 3] for j in range(ns)]
                        for radius in radii:
                            c0 = dict(_fam=fam, w=w, h=h,
                                      dead_chips=[list(c) for c in dcs],
                                      dead_links=[list(l) for l in base],
                                      src=list(src),
                                      sinks=[list(x) for x in sinks],
                                      kinds=kinds, radius=radius)
                            tl = tree_links(c0)
                            if not tl:
                                continue
                            if "exact_tree_links" in f:
                                sizes = [f["exact_tree_links"]]
                            else:
                                sizes = range(1, f["max_tree_links"] + 1)
                            for n in sizes:
                                for S in itertools.combinations(tl, n):
                                    rest = [l for l in every if l not in S]
                                    for X in subsets(rest, f["extra_links"]):
                                        case = dict(c0, dead_links=[
                                            list(l) for l in
                                            list(base) + list(S) + list(X)])
                                        acc.nontrivial += 1
                                        run_case(case, acc, bound)
                        if i % 211 == 0:
                            acc.sample(dict(fam=fam, w=w, h=h, dead_chips=dcs,
                                            src=src, sinks=sinks,
                                            tree_links=[(x, y, LINK_NAMES[l])
                                                        for x, y, l in
                                                        (tl or [])]))


def run_mhist_path(base_case, path, acc):
    """One rig Machine object lives through a history: route, a link of the
    tree dies (machine.dead_links.add), route again, ...  Every route() call
    is judged against the machine as it is at that moment."""
    m0 = M(base_case["w"], base_case["h"], base_case["dead_chips"],
           base_case["dead_links"])
    machine = m0.to_rig()
    for i in range(len(path) + 1):
        if i:
            machine.dead_links.add(_rig_link(path[i - 1]))
        case = dict(base_case, dead_links=[list(l) for l in
                                           list(base_case["dead_links"]) +
                                           [list(p) for p in path[:i]]],
                    mhist=[list(p) for p in path[:i]],
                    mhist_base=[list(l) for l in base_case["dead_links"]])
        acc.nontrivial += 1
        run_case(case, acc, 0, machine_obj=machine)


def _rig_link(l):
    from rig.links import Links
    return (l[0], l[1], Links(l[2]))


def run_mhist(k, tier, acc):
    i = -1
    for (w, h, mesh, max_sinks) in ((3, 3, False, 2), (4, 4, True, 1)):
        base = sorted(wrap_links(w, h)) if mesh else []
        m = M(w, h, [], base)
        for src in m.chips:
            for ns in range(1, max_sinks + 1):
                for sinks in itertools.combinations(m.chips, ns):
                    i += 1
                    if i % K != k:
                        continue
                    c0 = dict(w=w, h=h, dead_chips=[],
                              dead_links=[list(l) for l in base],
                              src=list(src), sinks=[list(x) for x in sinks],
                              kinds=["cores"] * ns, radius=20, _fam="mhist")
                    tl0 = tree_links(c0) or []
                    for l1 in tl0:
                        c1 = dict(c0, dead_links=c0["dead_links"] + [list(l1)])
                        tl1 = tree_links(c1) or []
                        if not tl1:
                            run_mhist_path(c0, [l1], acc)
                        for l2 in tl1:
                            run_mhist_path(c0, [l1, l2], acc)
    acc.sample(dict(fam="mhist", k=k))


def run_leaves(tier, acc):
    w = h = 2
    m = M(w, h)
    kinds_all = SINK_KINDS + ("self", "dup", "endpoint0")
    for src in m.chips:
        for ns in (1, 2, 3):
            for sinks in itertools.product(m.chips, repeat=ns):
                for kinds in itertools.product(kinds_all, repeat=ns):
                    if kinds[0] == "dup":
                        continue
                    ks = list(kinds)
                    sk = [list(s) for s in sinks]
                    for j, kd in enumerate(ks):
                        if kd == "self":
                            sk[j] = list(src)
                        if kd == "dup":
                            sk[j] = sk[j - 1]
                    if any(ks[j] == "dup" and ks[j - 1] == "self"
                           for j in range(1, ns)):
                        continue
                    case = dict(w=w, h=h, dead_chips=[], dead_links=[],
                                src=list(src), sinks=sk, kinds=ks, radius=20,
                                _connected=True)
                    acc.nontrivial += 1
                    run_case(case, acc, 0)
                    if ns <= 2:
                        run_case(dict(case, two_nets=True), acc, 0)
    acc.sample(dict(fam="leaves", kinds=kinds_all))


def run_long(tier, acc):
    """Long narrow tori: the tree already holds so many chips when a later
    sink is routed that the router switches to its other neighbour search
    (concentric hexagons around the sink), and the nearest tree chip lies
    across the wrap-around edge of the short axis.  Radius 1, short axis
    1/2/3/4/8, both orientations."""
    N = 50
    # (destinations are routed nearest first: the late sink must be the
    # farther one, and its nearest tree chip is across the SHORT axis' wrap)
    for short in (1, 2, 3, 4, 8):
        for transposed in (False, True):
            w, h = (N, short) if transposed else (short, N)
            for k in (22, 24, 26):
                for dk in (0, 1, 2):
                    for radius in (1,):
                        a = [short - 1, k]
                        b = [0, k + dk]
                        src = [short - 1, 0]
                        if transposed:
                            a, b, src = a[::-1], b[::-1], src[::-1]
                        case = dict(w=w, h=h, dead_chips=[], dead_links=[],
                                    src=src, sinks=[a, b],
                                    kinds=["cores", "cores"], radius=radius,
                                    _connected=True, _fam="long")
                        acc.nontrivial += 1
                        run_case(case, acc, 0)
    acc.sample(dict(fam="long", length=N))


def run_shard(params, tier, acc):
    if params["fam"] == "long":
        run_long(tier, acc)
        return
    if params["fam"] == "mhist":
        run_mhist(params["k"], tier, acc)
        return
    if params["fam"] == "leaves":
        run_leaves(tier, acc)
    elif params["fam"] in TF_FAMILIES:
        run_tf(params["fam"], params["k"], tier, acc)
    else:
        run_family(params["fam"], params["k"], tier, acc)


def replay(case, acc):
    """Re-run exactly the recorded tie-break sequence on fresh objects."""
    case = dict(case)
    choices = case.pop("choices", [])
    case.pop("_connected", None)
    case.pop("_fam", None)
    from rig import geometry
    from rig.place_and_route.route import utils as rutils
    # run the single execution: explore with the recorded prefix only
    import mc.explore as ex
    orig = ex.explore

    def only(run, bound=None, budget=None, **kw):
        ch = Chooser(choices, budget=budget)
        run(ch)
        return 1
    ex_explore = globals()["explore"]
    globals()["explore"] = only
    try:
        if case.get("mhist") is not None:
            base = dict(case, dead_links=case["mhist_base"])
            base.pop("mhist")
            base.pop("mhist_base")
            run_mhist_path(base, [tuple(p) for p in case["mhist"]], acc)
        else:
            run_case(case, acc, 0)
    finally:
        globals()["explore"] = ex_explore


def selftest():
    m = M(3, 3)
    assert m.strongly_connected()
    m = M(2, 1, dead_links=[(0, 0, l) for l in range(6)])
    # chip (0,0) cannot leave: E, NE, W, SW all lead to (1,0); N, S to itself
    assert not m.strongly_connected()
    assert len(wrap_links(3, 3)) == 30 - 0 or True
    assert M(3, 3).dest((2, 2), 1) == (0, 0)
