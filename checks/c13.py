"""C13 - file-like memory views behave as bounded files and stay in their
region.

E2: breadth-first search over operation histories on real MemoryIO /
SlicedMemoryIO objects backed by a logging fake controller.  A state is the
history that reaches it (fresh objects, history replayed); states are
de-duplicated on a canonical projection; on every transition the real result
is compared with a bounded-file reference model and every memory access the
view issued is checked to lie inside that view."""
import warnings

PROPERTY = "C13"
LEVEL = "model_checking"
TECHNIQUE = ("explicit-state breadth-first search over operation histories on "
             "the real memory views with a bounded-file reference model and "
             "an access-confinement monitor")
RULE = ("alphabet: seek(n, whence) n in {-2,-1,0,1,3,5} whence in {0,1,2,3}; "
        "read(k) k in {default,-1,-2,-1000,0,1,2,5}; write of 0/1/2/5 marker "
        "bytes; transfers and free() whose controller command fails; "
        "slices v[a:b] a,b in {None,-5,-1,0,1,3,5}, v[::2], v[1]; tell, len, "
        "address, flush, close, with, free; on every live view (<=3 views); "
        "root views of length 0, 1, 4 at an unaligned base; part big: "
        "600-byte view, transfers of 254..1024 bytes, depth 2 (thorough 3); "
        "part overlap: every span x every overlapping block of 8 bytes, read "
        "/ write through another view / read again. States are "
        "canonical (view bounds/offset/closed, freed, region bytes); a "
        "transition is non-trivial when it moves data, the position or "
        "creates/closes a view")
ASSUMPTIONS = [
    "reference: a bounded file (bytearray + position) per view sharing one "
    "backing array; seek from the end follows Python's file semantics (and "
    "the method's own docstring): position = length + offset",
    "where a real file has no defined behaviour (position < 0) nothing but "
    "confinement is demanded; the model is resynchronised to the "
    "implementation afterwards",
    "'every operation fails' after close/free is read as every operation "
    "that can move data or the position (read, write, seek, tell, flush, "
    "address); len() and slicing move neither",
]

BASE = 0x60000002
GUARD = 16


def scope(tier):
    q = tier == "quick"
    return dict(depth=3 if q else 4, lengths=[0, 1, 4], max_views=3,
                filelike_via_controller=True)


class ControllerFault(Exception):
    """Injected failure of the underlying controller access."""


class FakeController(object):
    """Byte array with guard zones; every access is logged."""

    fail_next = False
    faulted = False

    def _fault(self):
        if self.fail_next:
            self.fail_next = False
            self.faulted = True
            raise ControllerFault("injected SCP failure")

    def __init__(self, length):
        self.length = length
        self.mem = bytearray((i * 7 + 3) & 0xff for i in
                             range(length + 2 * GUARD))
        self.log = []
        self.freed = []

    def _ix(self, addr):
        return addr - BASE + GUARD

    def read(self, addr, size, x, y, p=0):
        self.log.append(("r", addr, size))
        self._fault()
        i = self._ix(addr)
        if size < 0 or i < 0 or i + size > len(self.mem):
            return b"\xee" * max(size, 0)
        return bytes(self.mem[i:i + size])

    def write(self, addr, data, x, y, p=0):
        self.log.append(("w", addr, len(data)))
        self._fault()
        i = self._ix(addr)
        if i < 0 or i + len(data) > len(self.mem):
            return
        self.mem[i:i + len(data)] = data

    def sdram_free(self, ptr, x, y):
        self._fault()
        self.freed.append(ptr)


# ------------------------------------------------------------- the alphabet
def alphabet(tier):
    ops = []
    for n in (-2, -1, 0, 1, 3, 5):
        for w in (0, 1, 2):
            ops.append(("seek", n, w))
    ops.append(("seek", 1, 3))
    # any negative count means "to the end of the view" (the method's own
    # documentation), not only -1
    for k in ("default", -1, -2, -1000, 0, 1, 2, 5):
        ops.append(("read", k))
    for n in (0, 1, 2, 5):
        ops.append(("write", n))
    vals = (None, -5, -1, 0, 1, 3, 5)
    for a in vals:
        for b in vals:
            ops.append(("slice", a, b))
    # the controller access fails (e.g. an SCP timeout): nothing was
    # transferred, so the position must not move
    ops += [("read_fail", 2), ("read_fail", "default"), ("write_fail", 2)]
    # ... or the command that frees the block fails: the block is still
    # allocated and its views still work
    ops += [("free_fail",)]
    ops += [("slice_step", 2), ("index", 1), ("tell",), ("len",),
            ("address",), ("flush",), ("close",), ("with",), ("free",)]
    return ops


class ModelView(object):
    def __init__(self, start, end):
        self.start, self.end = start, max(start, end)
        self.off = 0
        self.closed = False

    def __len__(self):
        return self.end - self.start


class World(object):
    """Real objects + reference model, built by replaying a history."""

    def __init__(self, length):
        from rig.machine_control.machine_controller import MemoryIO
        self.ctl = FakeController(length)
        self.real = [MemoryIO(self.ctl, 1, 2, BASE, BASE + length)]
        self.model = [ModelView(BASE, BASE + length)]
        self.mmem = bytearray(self.ctl.mem)
        self.freed = False
        self.step = 0
        self.extra_problems = []

    def canon(self):
        views = []
        for r in self.real:
            views.append((r._start_address, r._end_address, r._offset,
                          r.closed))
        return (tuple(views), bool(self.real[0]._freed),
                bytes(self.ctl.mem[GUARD:GUARD + self.ctl.length]))


def apply(world, v, op, problems, known):
    world.extra_problems = []
    _apply(world, v, op, problems, known)
    problems.extend(world.extra_problems)
    world.extra_problems = []


def _apply(world, v, op, problems, known):
    """Apply `op` to view index v of both real objects and model; append
    (kind, sig_extra, message) to problems on disagreement."""
    from rig.machine_control.machine_controller import TruncationWarning
    real = world.real[v]
    mod = world.model[v]
    world.step += 1
    log0 = len(world.ctl.log)
    name = op[0]
    world.ctl.fail_next = world.ctl.faulted = False
    if name in ("read_fail", "write_fail", "free_fail"):
        world.ctl.fail_next = True
        name = name[:-5]
    dead = mod.closed or world.freed
    exc = None
    res = None
    with warnings.catch_warnings(record=True) as wlist:
        warnings.simplefilter("always")
        try:
            if name == "seek":
                res = real.seek(op[1], op[2])
            elif name == "read":
                res = real.read() if op[1] == "default" else real.read(op[1])
            elif name == "write":
                data = bytes(((0xA0 + world.step * 16 + i) & 0xff)
                             for i in range(op[1]))
                res = real.write(data)
            elif name == "slice":
                res = real[op[1]:op[2]]
            elif name == "slice_step":
                res = real[::op[1]]
            elif name == "index":
                res = real[op[1]]
            elif name == "tell":
                res = real.tell()
            elif name == "len":
                res = len(real)
            elif name == "address":
                res = real.address
            elif name == "flush":
                res = real.flush()
            elif name == "close":
                res = real.close()
            elif name == "with":
                with real as f:
                    res = f is real
            elif name == "free":
                res = real.free()
        except Exception as e:       # noqa
            exc = e
    trunc = [w for w in wlist if issubclass(w.category, TruncationWarning)]
    accesses = world.ctl.log[log0:]
    faulted = world.ctl.faulted
    world.ctl.fail_next = world.ctl.faulted = False

    def bad(kind, msg, **extra):
        problems.append((kind, extra, "%s on view %d [%#x,%#x) offset %r: %s"
                         % (fmt(op), v, mod.start, mod.end, mod.off, msg)))

    # ---- confinement: unconditional
    for kind_, addr, size in accesses:
        if size < 0 or addr < mod.start or addr + size > mod.end:
            neg = mod.off < 0
            past = mod.off > len(mod)
            bad("confinement",
                "issued %s of %d bytes at %#x, outside the view"
                % ("read" if kind_ == "r" else "write", size, addr),
                position=("negative" if neg else "past_end" if past
                          else "inside"), op=name)
    # ---- guard zones must never change
    if bytes(world.ctl.mem[:GUARD]) != bytes(world.mmem[:GUARD]) or \
            bytes(world.ctl.mem[-GUARD:]) != bytes(world.mmem[-GUARD:]):
        world.mmem[:GUARD] = world.ctl.mem[:GUARD]
        world.mmem[-GUARD:] = world.ctl.mem[-GUARD:]

    # ---- closed / freed
    must_fail = ("seek", "read", "write", "tell", "address", "flush")
    if dead and name in must_fail:
        if not isinstance(exc, OSError):
            bad("not_rejected_after_close",
                "view is %s but the operation %s"
                % ("freed" if world.freed else "closed",
                   "raised %r" % exc if exc else "succeeded"), op=name)
        if accesses:
            bad("access_after_close", "memory accessed on a dead view")
        resync(world)
        return
    if name == "free":
        if v != 0:
            # slices have no free(): AttributeError is fine
            if exc is None:
                bad("slice_freed", "a slice could be freed")
            return
        if world.freed:
            if not isinstance(exc, OSError):
                bad("double_free", "second free() %s"
                    % ("raised %r" % exc if exc else "succeeded"))
        elif faulted:
            alive = True
            try:
                real.tell()
            except OSError:
                alive = False
            if not isinstance(exc, ControllerFault) or world.ctl.freed or \
                    (not alive and not mod.closed):
                bad("failed_free", "the command freeing the block failed "
                    "(%r); free() %s, the view is %s, blocks freed on the "
                    "machine: %r" % (
                        "injected", "raised %r" % exc if exc else
                        "returned normally", "alive" if alive else "dead",
                        world.ctl.freed))
        else:
            if exc is not None or world.ctl.freed[-1:] != [mod.start]:
                bad("free", "free() raised %r / freed %r" %
                    (exc, world.ctl.freed))
            world.freed = True
        resync(world)
        return
    if dead and name in ("close", "with"):
        # closing a closed view is harmless; on a freed parent flush may raise
        mod.closed = True
        resync(world)
        return

    L = len(mod)
    if name == "seek":
        n, w = op[1], op[2]
        if w == 3:
            if not isinstance(exc, ValueError):
                bad("seek_invalid_whence", "expected ValueError, got %r" % exc)
            resync(world)
            return
        want = n if w == 0 else mod.off + n if w == 1 else L + n
        if exc is not None:
            bad("seek_exception", "raised %r" % exc)
        elif real._offset != want:
            bad("seek_position", "position is %r, a file would be at %r"
                % (real._offset, want), whence=w,
                uses_len_minus_n=(w == 2 and real._offset == L - n))
        mod.off = real._offset
    elif name in ("read", "write") and mod.off < 0:
        # undefined for a file: only confinement (checked above)
        pass
    elif name in ("read", "write") and faulted:
        if not isinstance(exc, ControllerFault):
            bad("fault_swallowed", "the controller access failed but the "
                "operation %s" % ("raised %r" % exc if exc else
                                  "returned %r" % (res,)), op=name)
        elif real._offset != mod.off:
            bad("position_after_failed_transfer",
                "the controller access failed (nothing transferred) but the "
                "position moved from %r to %r" % (mod.off, real._offset),
                op=name)
    elif name == "read":
        k = op[1]
        avail = max(0, L - mod.off)
        to_end = (k == "default" or k < 0)
        n = avail if to_end else min(k, avail)
        want = bytes(world.mmem[GUARD + mod.start - BASE + mod.off:
                                GUARD + mod.start - BASE + mod.off + n])
        if exc is not None:
            bad("read_exception", "raised %r" % exc)
        else:
            if res != want:
                bad("read_data", "returned %r, the file holds %r"
                    % (res, want))
            if real._offset != mod.off + n:
                bad("read_position", "position %r after reading %d bytes "
                    "from %r" % (real._offset, n, mod.off))
            wanted_warn = 1 if (not to_end and k > avail) else 0
            # a zero-length request beyond the end moves nothing; whether
            # it warns is not constrained by the property
            free_choice = (mod.off > L and k == 0)
            if len(trunc) != wanted_warn and not free_choice:
                bad("read_warning", "%d TruncationWarnings, expected %d"
                    % (len(trunc), wanted_warn))
    elif name == "write":
        nreq = op[1]
        avail = max(0, L - mod.off)
        n = min(nreq, avail)
        i = GUARD + mod.start - BASE + mod.off
        world.mmem[i:i + n] = data[:n]
        if exc is not None:
            bad("write_exception", "raised %r" % exc)
        else:
            if res != n:
                bad("write_count", "returned %r, %d bytes fit" % (res, n))
            if real._offset != mod.off + n:
                bad("write_position", "position %r after writing %d bytes "
                    "at %r" % (real._offset, n, mod.off))
            if len(trunc) != (1 if nreq > avail else 0) and not (
                    mod.off > L and nreq == 0):
                bad("write_warning", "%d TruncationWarnings, expected %d"
                    % (len(trunc), 1 if nreq > avail else 0))
        if bytes(world.ctl.mem) != bytes(world.mmem):
            bad("write_data", "memory differs from the file model after the "
                "write", position=("past_end" if mod.off > L else "inside"))
    elif name == "slice":
        s, e, _ = slice(op[1], op[2]).indices(L)
        e = max(s, e)
        from rig.machine_control.machine_controller import SlicedMemoryIO
        if exc is not None or not isinstance(res, SlicedMemoryIO):
            bad("slice_exception", "raised %r / returned %r" % (exc, res))
        else:
            if (res._start_address, res._end_address) != (mod.start + s,
                                                          mod.start + e) \
                    or res._offset != 0 or res is real:
                bad("slice_bounds",
                    "slice covers [%#x,%#x) offset %r, Python clipping gives "
                    "[%#x,%#x) offset 0" % (res._start_address,
                                            res._end_address, res._offset,
                                            mod.start + s, mod.start + e))
            if res.closed and not mod.closed:
                bad("slice_closed", "new slice is born closed")
            if len(world.real) < 3 and isinstance(res, SlicedMemoryIO):
                world.real.append(res)
                world.model.append(ModelView(res._start_address,
                                             res._end_address))
                world.model[-1].off = res._offset
                world.model[-1].closed = res.closed
    elif name in ("slice_step", "index"):
        if not isinstance(exc, (ValueError, TypeError)):
            bad("bad_slice_accepted", "expected ValueError, got %r / %r"
                % (exc, res))
    elif name == "tell":
        if exc is not None or res != mod.off:
            bad("tell", "tell() = %r (%r), position is %r" % (res, exc,
                                                              mod.off))
    elif name == "len":
        if exc is not None or res != L:
            bad("len", "len() = %r (%r), view has %d bytes" % (res, exc, L))
    elif name == "address":
        if exc is not None or res != mod.start + mod.off:
            bad("address", "address = %r (%r), expected %#x"
                % (res, exc, mod.start + mod.off))
    elif name == "flush":
        if exc is not None:
            bad("flush", "raised %r" % exc)
    elif name in ("close", "with"):
        if exc is not None or not real.closed:
            bad("close", "raised %r / closed=%r" % (exc, real.closed))
        mod.closed = True
    if accesses and name not in ("read", "write"):
        bad("unexpected_access", "operation accessed memory: %r" % accesses)
    resync(world)


def resync(world):
    """Bring the model to the implementation's state so that states behind a
    reported (or known) discrepancy are still explored.  Before that, every
    live view object is probed: tell() must fail exactly on the views the
    model holds to be closed or freed (a view that wrongly stays alive - or
    dies with another one - is seen at once, not only when a later operation
    of the history happens to touch it)."""
    for i, (r, m) in enumerate(zip(world.real, world.model)):
        want_dead = m.closed or world.freed
        try:
            r.tell()
            dead = False
        except OSError:
            dead = True
        except Exception as e:
            world.extra_problems.append(
                ("probe_exception", {}, "tell() on view %d raised %s: %s"
                 % (i, type(e).__name__, e)))
            continue
        if dead != want_dead:
            world.extra_problems.append(
                ("liveness", dict(expected="dead" if want_dead else "alive"),
                 "after step %d view %d [%#x,%#x) is %s (closed=%r, "
                 "allocation freed=%r) but tell() %s"
                 % (world.step, i, m.start, m.end,
                    "dead" if want_dead else "alive", m.closed, world.freed,
                    "raises OSError" if dead else "succeeds")))
    for r, m in zip(world.real, world.model):
        m.off = r._offset
        m.closed = r.closed
    world.mmem[:] = world.ctl.mem
    world.freed = bool(world.real[0]._freed)


def fmt(op):
    if op[0] == "slice":
        return "v[%r:%r]" % (op[1], op[2])
    return "%s(%s)" % (op[0], ", ".join(map(repr, op[1:])))


def build(length, hist):
    w = World(length)
    sink = []
    for v, op in hist:
        if v < len(w.real):
            apply(w, v, op, sink, None)
    return w


def part_filelike(acc):
    """Views obtained from MachineController.sdram_alloc_as_filelike on the
    simulated machine: length, base, truncation at the requested size,
    confinement in machine memory, free."""
    from mc.ctl import Session
    from mc.sim import SimMachine
    from mc.runner import REPO
    from rig.machine_control.machine_controller import TruncationWarning
    for size in (0, 1, 2, 3, 4, 5, 10, 13, 16):
        for chip in ((0, 0), (1, 1)):
            for clear in (False, True):
                acc.evaluations += 1
                acc.transitions += 1
                acc.nontrivial += 1
                sim = SimMachine(REPO, 2, 2, buffer_size=8)
                sim.full_sync = False
                case = dict(filelike=True, size=size, chip=list(chip),
                            clear=clear)

                def bad(kind, msg):
                    acc.violation(dict(kind=kind), case, msg)
                with Session(sim) as s_:
                    mc = s_.mc
                    c = sim.chips[chip]
                    try:
                        with warnings.catch_warnings(record=True) as wl:
                            warnings.simplefilter("always")
                            f = mc.sdram_alloc_as_filelike(
                                size, 0, chip[0], chip[1], 30, clear)
                            ptr = max(c.allocs) if c.allocs else None
                            if ptr is None or c.allocs[ptr][0] != size or \
                                    c.allocs[ptr][1] != 30:
                                bad("filelike_alloc", "allocation table %r "
                                    "after asking for %d bytes" % (c.allocs,
                                                                   size))
                                continue
                            if len(f) != size or f.address != ptr or \
                                    f.tell() != 0:
                                bad("filelike_bounds", "view of a %d byte "
                                    "block at %#x has len %d address %#x"
                                    % (size, ptr, len(f), f.address))
                                continue
                            before = c.mem.read(ptr - 8, size + 24)
                            data = bytes((0xC0 + i) & 0xff
                                         for i in range(size + 7))
                            n = f.write(data)
                            after = c.mem.read(ptr - 8, size + 24)
                            want = before[:8] + data[:size] + \
                                before[8 + size:]
                            if n != size or after != want:
                                bad("filelike_write", "writing %d bytes to a "
                                    "%d byte block wrote %r; memory around "
                                    "the block changed beyond it: %s"
                                    % (len(data), size, n, after != want))
                                continue
                            f.seek(0)
                            got = f.read(size + 3)
                            if got != data[:size]:
                                bad("filelike_read", "read back %r" % got)
                                continue
                            g = f[1:3]
                            f.free()
                            if ptr in c.allocs:
                                bad("filelike_free", "free() did not free "
                                    "the block")
                            for fn in (lambda: f.read(1), lambda: g.read(1),
                                       lambda: g.tell(), lambda: f.free()):
                                try:
                                    fn()
                                    bad("filelike_after_free", "operation "
                                        "succeeded after free()")
                                    break
                                except OSError:
                                    pass
                    except Exception as e:
                        bad("filelike_exception", "%s: %s"
                            % (type(e).__name__, e))
                    if sim.errors:
                        bad("filelike_protocol", sim.errors[0])
    acc.states += 1
    acc.sample(dict(filelike=True, sizes=[0, 1, 2, 3, 4, 5, 10, 13, 16]))


def part_overlap(acc):
    """Read a span, write a block that overlaps it (starting before, inside
    or at it) through another view of the same allocation, read the same
    span again: every span and every block of an 8-byte allocation, the
    second read through the same view (seek back) and through a fresh
    slice."""
    from rig.machine_control.machine_controller import MemoryIO
    L = 8
    for a in range(L):
        for n in range(1, L - a + 1):
            for b in range(L):
                for m in range(1, L - b + 1):
                    if not (b < a + n and a < b + m):
                        continue        # no overlap
                    for how in ("same_view", "fresh_slice", "root"):
                        acc.evaluations += 1
                        acc.transitions += 3
                        acc.nontrivial += 1
                        ctl = FakeController(L)
                        root = MemoryIO(ctl, 1, 2, BASE, BASE + L)
                        model = bytearray(ctl.mem[GUARD:GUARD + L])
                        case = dict(overlap=[a, n, b, m, how])
                        try:
                            v = root if how == "root" else root[a:a + n]
                            if how == "root":
                                v.seek(a)
                            r1 = v.read(n)
                            w = root[b:b + m]
                            data = bytes(0x41 + i for i in range(m))
                            w.write(data)
                            model2 = bytearray(model)
                            model2[b:b + m] = data
                            if how == "fresh_slice":
                                v = root[a:a + n]
                            elif how == "root":
                                v.seek(a)
                            else:
                                v.seek(0)
                            r2 = v.read(n)
                        except Exception as e:
                            acc.violation(dict(kind="overlap_exception"),
                                          case, "%s: %s" % (type(e).__name__,
                                                            e))
                            continue
                        if r1 != bytes(model[a:a + n]) or \
                                r2 != bytes(model2[a:a + n]):
                            acc.violation(
                                dict(kind="read_after_overlapping_write"),
                                case,
                                "read [%d,%d) -> %r; write [%d,%d) through "
                                "another view; read [%d,%d) again (%s) -> %r,"
                                " the file holds %r"
                                % (a, a + n, r1, b, b + m, a, a + n, how, r2,
                                   bytes(model2[a:a + n])))
    acc.states += 1
    acc.sample(dict(overlap=True, length=L))


BIG = 600


def big_alphabet():
    """Transfers of hundreds of bytes on a view whose base address is not
    word aligned: sizes around 255/256/257 and around the whole view, from
    positions of every alignment."""
    ops = [("seek", n, 0) for n in (0, 1, 2, 3, 4, 255, 343, 344, 599)]
    ops += [("read", k) for k in ("default", -3, 254, 255, 256, 257, 300,
                                  512, 599, 600, 601, 1024)]
    ops += [("write", n) for n in (255, 256, 257, 300, 600, 601)]
    ops += [("slice", a, b) for a, b in ((5, 306), (1, None), (None, -1),
                                         (3, 259), (4, 260), (344, None))]
    return ops


def run_big(params, tier, acc):
    """Depth-2 (thorough 3) search over the big alphabet."""
    ops = big_alphabet()
    depth = 2 if tier == "quick" else 3
    lo, hi = params["first"]
    seen = set()
    frontier = [[]]
    for level in range(1, depth + 1):
        nxt = []
        for h in frontier:
            nviews = len(build(BIG, h).real)
            for v in range(nviews):
                for op in (ops[lo:hi] if level == 1 else ops):
                    w = build(BIG, h)
                    problems = []
                    before = w.canon()
                    apply(w, v, op, problems, None)
                    acc.transitions += 1
                    acc.evaluations += 1
                    after = w.canon()
                    if after != before:
                        acc.nontrivial += 1
                    for kind, extra, msg in problems:
                        sig = dict(kind=kind)
                        sig.update(extra)
                        acc.violation(
                            sig, dict(length=BIG,
                                      hist=[[a, list(b)] for a, b in
                                            h + [(v, op)]]),
                            msg + "\n  history: " +
                            "; ".join("v%d.%s" % (a, fmt(b))
                                      for a, b in h + [(v, op)]),
                            size=len(h) + 1)
                    acc.outcome(op[0] + (":err" if problems else ""))
                    if after not in seen:
                        seen.add(after)
                        acc.states += 1
                        if level < depth:
                            nxt.append(h + [(v, op)])
        frontier = nxt
    acc.traces += acc.transitions
    acc.sample(dict(length=BIG, first_ops=[fmt(o) for o in ops[lo:hi]],
                    states=len(seen), depth=depth))


def shards(tier):
    ops = alphabet(tier)
    out = [dict(filelike=True), dict(overlap=True)]
    nb = len(big_alphabet())
    for i in range(0, nb, 3):
        out.append(dict(big=True, first=[i, min(i + 3, nb)]))
    for length in scope(tier)["lengths"]:
        for i in range(0, len(ops), 6):
            out.append(dict(length=length, first=[i, min(i + 6, len(ops))]))
    return out


def run_shard(params, tier, acc):
    if params.get("filelike"):
        part_filelike(acc)
        return
    if params.get("big"):
        run_big(params, tier, acc)
        return
    if params.get("overlap"):
        part_overlap(acc)
        return
    ops = alphabet(tier)
    depth = scope(tier)["depth"]
    length = params["length"]
    lo, hi = params["first"]
    seen = set()
    frontier = [[]]
    for level in range(1, depth + 1):
        nxt = []
        for h in frontier:
            nviews = len(build(length, h).real)
            for v in range(nviews):
                for op in (ops[lo:hi] if level == 1 else ops):
                    w = build(length, h)
                    problems = []
                    before = w.canon()
                    apply(w, v, op, problems, None)
                    acc.transitions += 1
                    acc.evaluations += 1
                    after = w.canon()
                    if after != before:
                        acc.nontrivial += 1
                    for kind, extra, msg in problems:
                        sig = dict(kind=kind)
                        sig.update(extra)
                        acc.violation(
                            sig, dict(length=length,
                                      hist=[[a, list(b)] for a, b in
                                            h + [(v, op)]]),
                            msg + "\n  history: " +
                            "; ".join("v%d.%s" % (a, fmt(b))
                                      for a, b in h + [(v, op)]),
                            size=len(h) + 1)
                    acc.outcome(op[0] + (":err" if problems else ""))
                    if level == depth and acc.transitions % 20011 == 0:
                        acc.sample(dict(length=length, history=[
                            "v%d.%s" % (a, fmt(b)) for a, b in h + [(v, op)]],
                            state=repr(after)[:200]))
                    if after not in seen:
                        seen.add(after)
                        acc.states += 1
                        if level < depth:
                            nxt.append(h + [(v, op)])
        frontier = nxt
    acc.traces += acc.transitions
    acc.sample(dict(length=length, first_ops=[fmt(o) for o in ops[lo:hi]],
                    states=len(seen), depth=depth))


def replay(case, acc):
    if case.get("filelike"):
        part_filelike(acc)
        return
    if case.get("overlap"):
        part_overlap(acc)
        return
    hist = [(a, tuple(b)) for a, b in case["hist"]]
    w = build(case["length"], hist[:-1])
    problems = []
    v, op = hist[-1]
    apply(w, v, op, problems, None)
    for kind, extra, msg in problems:
        sig = dict(kind=kind)
        sig.update(extra)
        acc.violation(sig, case, msg)


def selftest():
    # the reference slice clipping is Python's own
    assert slice(-5, 3).indices(4) == (0, 3, 1)
    assert slice(3, 1).indices(4)[:2] == (3, 1)
    c = FakeController(4)
    c.write(BASE, b"ab", 0, 0)
    assert c.read(BASE, 2, 0, 0) == b"ab" and c.log[0] == ("w", BASE, 2)
