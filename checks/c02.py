"""C02 - every placer returns a feasible, constraint-respecting placement or
fails with a documented error.

E3 x E5: small machines x vertex sets x constraint sets, each placer (both
annealing kernels, Hilbert, RCM, breadth-first, sequential incl. custom
orders, random) called with an owned random source explored to a deviation
bound; an independent feasibility oracle judges the result."""
import collections
import itertools
import signal

from mc.explore import explore, FakeRandom, Chooser, BudgetExceeded

PROPERTY = "C02"
LEVEL = "exploration"
TECHNIQUE = ("bounded-exhaustive enumeration of machines x vertex sets x "
             "constraint sets x placers with deviation-bounded exploration of "
             "the owned random source; independent feasibility and "
             "completeness oracle")
RULE = ("family 'unit' (completeness clause): machines incl. 5x1/1x5/3x3 x "
        "capacities x dead/exception chips x reservations, unit-demand "
        "vertices up to the free capacity, optional pinned vertex: every "
        "placer must succeed; family 'general': <=3 (thorough 4) vertices "
        "with needs {none,0,1,2}, location / same-chip (chained, duplicated, "
        "pinned member) constraint sets, nets with weights {0,1,2.5}: "
        "feasible result or documented error; family 'orders': sequential "
        "placer with every vertex and chip order. Non-trivial: >=2 vertices "
        "or a constraint; cases are distinct by construction")
ASSUMPTIONS = [
    "the annealer's horizon is cut by an on_temperature_change callback that "
    "stops after one (thorough: two) temperature steps",
    "the C kernel's random stream is selected by a 32-bit seed and cannot be "
    "branched: seeds are a finite alphabet (8 values)",
    "wall-clock watchdog of 20 s per placer call (normal cost < 50 ms)",
]

PLACERS = ["sequential", "breadth_first", "hilbert", "hilbert_nobf", "rcm",
           "rand", "sa_python", "sa_c"]
R = "Cores"


def scope(tier):
    q = tier == "quick"
    return dict(placers=PLACERS, random_bound=0 if q else 1,
                general_vertices=3 if q else 4,
                temperature_steps=1 if q else 2)


def shards(tier):
    out = []
    for p in PLACERS:
        for k in range(4):
            out.append(dict(fam="unit", placer=p, k=k, K=4))
            out.append(dict(fam="general", placer=p, k=k, K=4))
    for i in range(3):
        for cap in (1, 2):
            for n in (1, 2, 3):
                out.append(dict(fam="orders", size=i, cap=cap, n=n))
    tr = [dict(fam="tiny_random", placer=p, size=i)
          for p in ("rand", "sa_python", "sa_c") for i in range(2)]
    mx = [dict(fam="sa_mixed", placer=p, k=k)
          for p in ("sa_python", "sa_c") for k in range(4)]
    two = [dict(fam="tworesource", placer=p) for p in PLACERS]
    return tr + mx + two + out


# ------------------------------------------------------------------ building
def build(case):
    from rig.place_and_route import Machine, Cores
    from rig.place_and_route.constraints import (
        LocationConstraint, SameChipConstraint, ReserveResourceConstraint)
    from rig.netlist import Net
    res = {Cores: case["cap"]}
    if case.get("cap2") is not None:
        res["S"] = case["cap2"]
    exc = {}
    for chip, c in case.get("exceptions", []):
        e = dict(res)
        e[Cores] = c
        exc[tuple(chip)] = e
    for chip, c, s2 in case.get("exceptions2", []):
        # the exception dictionary lists the resources in the OTHER order
        # (an exception need not be built like the machine-wide dict)
        exc[tuple(chip)] = collections.OrderedDict([("S", s2), (Cores, c)])
    machine = Machine(case["w"], case["h"], chip_resources=res,
                      chip_resource_exceptions=exc,
                      dead_chips=set(map(tuple, case.get("dead", []))))
    V = vertex_object(case)
    vr = {}
    for name, need in case["vertices"]:
        d = {}
        if need is not None:
            d[Cores] = need
        if name in case.get("needs2", {}):
            d["S"] = case["needs2"][name]
        vr[V(name)] = d
    nets = [Net(V(s), [V(x) for x in t], w)
            for s, t, w in case.get("nets", [])]
    cons = []
    for a, b, loc in case.get("reservations", []):
        cons.append(ReserveResourceConstraint(Cores, slice(a, b),
                                              None if loc is None
                                              else tuple(loc)))
    for v, chip in case.get("locations", []):
        cons.append(LocationConstraint(V(v), tuple(chip)))
    for grp in case.get("same_chip", []):
        cons.append(SameChipConstraint([V(x) for x in grp]))
    return vr, nets, machine, cons


def vertex_object(case):
    """Vertices are arbitrary hashable objects: plain names, or (vkind)
    tuples such as (population, index), the empty tuple's neighbours and
    strings that look like format specifications."""
    kind = case.get("vkind")
    names = [nm for nm, _ in case["vertices"]]
    if kind is None:
        return lambda nm: nm
    if kind == "tuple":
        objs = {nm: ("pop", j) for j, nm in enumerate(names)}
    elif kind == "tuple3":
        objs = {nm: ("pop", j, "%s {} %d") for j, nm in enumerate(names)}
    else:
        objs = {nm: "{%d} %%s %%d {}" % j + nm for j, nm in enumerate(names)}
    return lambda nm: objs[nm]


def snapshot(vr, nets, machine, cons):
    return (sorted((k, sorted((str(r), v) for r, v in d.items()))
                   for k, d in vr.items()),
            [(n.source, list(n.sinks), n.weight) for n in nets],
            (machine.width, machine.height,
             sorted((str(k), v) for k, v in machine.chip_resources.items()),
             sorted((k, sorted((str(r), v) for r, v in d.items()))
                    for k, d in machine.chip_resource_exceptions.items()),
             sorted(machine.dead_chips), sorted(machine.dead_links)),
            [sorted((k, repr(v)) for k, v in vars(c).items()) for c in cons])


class Timeout(Exception):
    pass


class _TooManyHangs(Exception):
    pass


# wall-clock limit of one placer call (the slowest legitimate call in scope
# takes well under a second)
WATCHDOG_S = 20


# calls that ran into the watchdog in this shard: every one costs WATCHDOG_S
# seconds of wall clock, so a shard is abandoned (and says so) after the
# second
_hangs = [0]


def _alarm(signum, frame):
    raise Timeout()


def call_placer(placer, vr, nets, machine, cons, rnd, tier, case):
    from rig.place_and_route.place import sequential, breadth_first, \
        hilbert, rcm, rand
    from rig.place_and_route.place.sa import algorithm as sa
    steps = [0]
    limit = case.get("steps") or scope(tier)["temperature_steps"]

    def stop(*a):
        steps[0] += 1
        return steps[0] < limit
    if placer == "sequential":
        kw = {}
        if case.get("vertex_order") is not None:
            V = vertex_object(case)
            kw["vertex_order"] = [V(v) for v in case["vertex_order"]]
        if case.get("chip_order") is not None:
            kw["chip_order"] = [tuple(c) for c in case["chip_order"]]
        return sequential.place(vr, nets, machine, cons, **kw)
    if placer == "breadth_first":
        return breadth_first.place(vr, nets, machine, cons)
    if placer == "hilbert":
        return hilbert.place(vr, nets, machine, cons)
    if placer == "hilbert_nobf":
        return hilbert.place(vr, nets, machine, cons, breadth_first=False)
    if placer == "rcm":
        return rcm.place(vr, nets, machine, cons)
    if placer == "rand":
        return rand.place(vr, nets, machine, cons, random=rnd)
    if placer in ("sa_python", "sa_c"):
        from rig.place_and_route.place.sa.python_kernel import PythonKernel
        if placer == "sa_c":
            from rig.place_and_route.place.sa.c_kernel import CKernel as K
        else:
            K = PythonKernel
        return sa.place(vr, nets, machine, cons,
                        effort=case.get("effort", 0.1), random=rnd,
                        on_temperature_change=stop, kernel=K)
    raise AssertionError(placer)


# -------------------------------------------------------------------- oracle
def free_capacity(case):
    cap = {}
    dead = set(map(tuple, case.get("dead", [])))
    exc = {tuple(c): v for c, v in case.get("exceptions", [])}
    for c, v, _s in case.get("exceptions2", []):
        exc[tuple(c)] = v
    for x in range(case["w"]):
        for y in range(case["h"]):
            if (x, y) in dead:
                continue
            c = exc.get((x, y), case["cap"])
            for a, b, loc in case.get("reservations", []):
                if loc is None or tuple(loc) == (x, y):
                    c -= (b - a)
            cap[(x, y)] = c
    return cap


def groups(case):
    parent = {}

    def find(a):
        parent.setdefault(a, a)
        while parent[a] != a:
            parent[a] = parent[parent[a]]
            a = parent[a]
        return a
    for g in case.get("same_chip", []):
        for v in g[1:]:
            parent[find(v)] = find(g[0])
    out = {}
    for v, _ in case["vertices"]:
        out.setdefault(find(v), []).append(v)
    return [g for g in out.values() if len(g) > 1]


def judge_placement(case, pl):
    """None if feasible, else message."""
    names = [v for v, _ in case["vertices"]]
    if not isinstance(pl, dict) or set(pl) != set(names):
        return "placement covers %r, vertices are %r" % (
            sorted(map(str, pl)) if isinstance(pl, dict) else pl, names)
    cap = free_capacity(case)
    used = {}
    need = dict(case["vertices"])
    for v, chip in pl.items():
        chip = tuple(chip)
        if chip not in cap:
            return "vertex %r placed on %r which is not a working chip" % (
                v, chip)
        used[chip] = used.get(chip, 0) + (need[v] or 0)
    if case.get("cap2") is not None:
        # second resource: plain capacities (no reservations on it)
        cap2 = {c: case["cap2"] for c in cap}
        for chip, c_, s2 in case.get("exceptions2", []):
            if tuple(chip) in cap2:
                cap2[tuple(chip)] = s2
        used2 = {}
        for v, chip in pl.items():
            used2[tuple(chip)] = used2.get(tuple(chip), 0) + \
                case.get("needs2", {}).get(v, 0)
        for chip, u in used2.items():
            if u > cap2[chip]:
                return ("chip %r holds vertices needing %d of the second "
                        "resource, it has %d" % (chip, u, cap2[chip]))
    for chip, u in used.items():
        if u > cap[chip]:
            return ("chip %r holds vertices needing %d, only %d available "
                    "after reservations" % (chip, u, cap[chip]))
    for v, chip in case.get("locations", []):
        if tuple(pl[v]) != tuple(chip):
            return "vertex %r must be on %r, placed on %r" % (v, chip, pl[v])
    for g in groups(case):
        if len(set(tuple(pl[v]) for v in g)) != 1:
            return "same-chip group %r is split: %r" % (
                g, [pl[v] for v in g])
    return None


def must_succeed(case):
    """Completeness clause."""
    if case.get("same_chip") or case.get("cap2") is not None:
        return False
    need = dict(case["vertices"])
    if any((n or 0) > 1 for n in need.values()):
        return False
    cap = free_capacity(case)
    if any(c < 0 for c in cap.values()):
        return False
    pinned = {}
    for v, chip in case.get("locations", []):
        if tuple(chip) not in cap:
            return False
        pinned[tuple(chip)] = pinned.get(tuple(chip), 0) + (need[v] or 0)
    if len(set(v for v, _ in case.get("locations", []))) != len(
            case.get("locations", [])):
        return False
    if any(u > cap[c] for c, u in pinned.items()):
        return False
    return sum((n or 0) for n in need.values()) <= sum(cap.values())


def location_invalid(case):
    cap = free_capacity(case)
    return any(tuple(c) not in cap for v, c in case.get("locations", []))


def run_case(case, acc, tier, bound):
    from rig.place_and_route.exceptions import InsufficientResourceError, \
        InvalidConstraintError

    def run(ch):
        vr, nets, machine, cons = build(case)
        before = snapshot(vr, nets, machine, cons)
        rnd = FakeRandom(ch, menu=3)
        acc.evaluations += 1
        c = dict(case, choices=None)
        signal.signal(signal.SIGALRM, _alarm)
        signal.alarm(WATCHDOG_S)
        try:
            try:
                pl = call_placer(case["placer"], vr, nets, machine, cons,
                                 rnd, tier, case)
            finally:
                signal.alarm(0)
            exc = None
        except (InsufficientResourceError, InvalidConstraintError) as e:
            exc = e
        except (Timeout, BudgetExceeded):
            _hangs[0] += 1
            acc.violation(dict(kind="no_termination", placer=case["placer"]),
                          dict(case, choices=list(ch.choices)),
                          "placer %s did not terminate within its budget"
                          % case["placer"], size=csize(case))
            if _hangs[0] >= 2:
                raise _TooManyHangs()
            return
        except Exception as e:
            acc.violation(dict(kind="exception", exc=type(e).__name__,
                               placer=case["placer"]),
                          dict(case, choices=list(ch.choices)),
                          "placer %s raised %s: %s\n  %s"
                          % (case["placer"], type(e).__name__, e,
                             describe(case)), size=csize(case))
            return
        c = dict(case, choices=list(ch.choices))
        if snapshot(vr, nets, machine, cons) != before:
            acc.violation(dict(kind="arguments_modified",
                               placer=case["placer"]), c,
                          "placer %s modified its arguments"
                          % case["placer"], size=csize(case))
        if exc is not None:
            acc.outcome(type(exc).__name__)
            if isinstance(exc, InvalidConstraintError) and \
                    not location_invalid(case):
                acc.violation(dict(kind="spurious_invalid_constraint",
                                   placer=case["placer"]), c,
                              "InvalidConstraintError (%s) but every located "
                              "chip exists\n  %s" % (exc, describe(case)),
                              size=csize(case))
            elif must_succeed(case):
                acc.violation(dict(kind="feasible_rejected",
                                   placer=case["placer"]), c,
                              "placer %s raised %s (%s) although every vertex "
                              "needs <=1 unit, there are no same-chip groups, "
                              "pinned vertices fit and the free capacity "
                              "suffices\n  %s"
                              % (case["placer"], type(exc).__name__, exc,
                                 describe(case)), size=csize(case))
            return
        acc.outcome("placed")
        if case.get("vkind"):
            V = vertex_object(case)
            back = {V(nm): nm for nm, _ in case["vertices"]}
            pl = {back.get(k, k): v for k, v in pl.items()}
        msg = judge_placement(case, pl)
        if msg:
            acc.violation(dict(kind="infeasible", placer=case["placer"]), c,
                          "placer %s: %s\n  %s" % (case["placer"], msg,
                                                   describe(case)),
                          size=csize(case))
    if case["placer"] in ("rand", "sa_python", "sa_c"):
        explore(run, bound=bound, budget=3000)
    else:
        run(Chooser())


def describe(case):
    return ("%dx%d cap=%r dead=%r exc=%r resv=%r vertices=%r nets=%r loc=%r "
            "same_chip=%r" % (case["w"], case["h"], case["cap"],
                              case.get("dead"), case.get("exceptions"),
                              case.get("reservations"), case["vertices"],
                              case.get("nets"), case.get("locations"),
                              case.get("same_chip")))


def csize(case):
    return (case["w"] * case["h"] * 10 + len(case["vertices"]) * 5 +
            len(case.get("locations", [])) + 3 * len(case.get("same_chip",
                                                              [])))


# ------------------------------------------------------------------ families
def machine_configs(sizes, caps):
    for (w, h) in sizes:
        chips = [(x, y) for x in range(w) for y in range(h)]
        for cap in caps:
            for dead in [None] + ([chips[-1]] if len(chips) > 1 else []) + \
                    ([chips[0]] if len(chips) > 2 else []):
                for exc in [None, "less", "more", "dead"]:
                    live = [c for c in chips if c != dead]
                    if exc == "dead" and not dead:
                        continue
                    if exc and (len(live) < 2 or (exc == "less" and cap == 0)):
                        continue
                    for resv in [None, "global", "chip", "both"]:
                        if resv and cap < 1:
                            continue
                        cfg = dict(w=w, h=h, cap=cap,
                                   dead=[list(dead)] if dead else [])
                        if exc == "dead":
                            # the dead chip also carries a resource
                            # exception (plenty of resources nobody may use)
                            cfg["exceptions"] = [[list(dead), cap + 2]]
                        elif exc:
                            cfg["exceptions"] = [[list(live[-1]),
                                                  cap - 1 if exc == "less"
                                                  else cap + 1]]
                        r = []
                        if resv in ("global", "both"):
                            r.append([0, 1, None])
                        if resv in ("chip", "both"):
                            c0 = live[0]
                            ecap = cap
                            if resv == "both" and cap < 2:
                                continue
                            r.append([cap - 1, cap, list(c0)])
                        cfg["reservations"] = r
                        yield cfg


def chain_nets(names, weight=1.0):
    return [[names[i], [names[i + 1]], weight] for i in range(len(names) - 1)]


def fam_unit(params, tier, acc):
    placer, k, K = params["placer"], params["k"], params["K"]
    sizes = [(1, 1), (2, 1), (3, 1), (2, 2), (5, 1), (1, 5), (3, 3)]
    if tier != "quick":
        sizes += [(5, 2), (5, 5), (9, 1)]
    # thorough: one deviation from the fair stream, for the uniform-random
    # placer only (an annealing run draws hundreds of numbers)
    bound = scope(tier)["random_bound"] if placer == "rand" else 0
    i = -1
    for cfg in machine_configs(sizes, [1, 2]):
        i += 1
        if i % K != k:
            continue
        total = sum(max(c, 0) for c in free_capacity(cfg).values())
        if any(c < 0 for c in free_capacity(cfg).values()):
            continue
        for n in sorted(set([total, total - 1, 1, total + 1])):
            if n < 1 or n > 26:
                continue
            names = ["v%d" % j for j in range(n)]
            for zero in (False, True):
                verts = [[nm, 1] for nm in names]
                if zero:
                    verts[0][1] = 0
                    if n > 1:
                        verts[-1][1] = None
                for netk in ("none", "chain", "star0"):
                    if placer in ("sa_python", "sa_c") and netk == "none" \
                            and n > 2:
                        continue
                    nets = {"none": [], "chain": chain_nets(names),
                            "star0": [[names[0], names[1:], 0.0],
                                      [names[-1], [names[0]], 2.5]]
                            if n > 1 else []}[netk]
                    for pin in (None, "first", "last"):
                        locs = []
                        live = sorted(free_capacity(cfg))
                        if pin == "first":
                            locs = [[names[-1], list(live[0])]]
                        elif pin == "last":
                            locs = [[names[0], list(live[-1])]]
                        case = dict(cfg, vertices=verts, nets=nets,
                                    locations=locs, placer=placer, fam="unit")
                        if n >= 2 or locs:
                            acc.nontrivial += 1
                        b = bound if (n <= 3 and cfg["w"] * cfg["h"] <= 3) \
                            else 0
                        run_case(case, acc, tier, b)
                        if pin is None and netk == "chain":
                            # the same problem with vertices that are
                            # tuples / look like format strings
                            run_case(dict(case, vkind=("tuple", "tuple3",
                                                       "fmt")[n % 3]),
                                     acc, tier, 0)
        if i % 20 == 0:
            acc.sample(dict(fam="unit", placer=placer, machine=cfg,
                            total_free=total))


NEEDS = [None, 0, 1, 2]


def constraint_sets(names, chips, outside):
    """Location / same-chip constraint sets for the general family."""
    n = len(names)
    out = [dict()]
    for c in chips[:2] + [outside]:
        out.append(dict(locations=[[names[0], list(c)]]))
    if n >= 2:
        out.append(dict(same_chip=[[names[0], names[1]]]))
        out.append(dict(same_chip=[[names[0], names[0], names[1]]]))
        out.append(dict(same_chip=[[names[0], names[1]]],
                        locations=[[names[1], list(chips[-1])]]))
        out.append(dict(locations=[[names[0], list(chips[0])],
                                   [names[1], list(chips[-1])]]))
        out.append(dict(same_chip=[[names[1], names[0], names[1]]]))
    if n >= 3:
        out.append(dict(same_chip=[[names[0], names[1]],
                                   [names[1], names[2]]]))
        out.append(dict(same_chip=[[names[0], names[1]],
                                   [names[0], names[1], names[2]]]))
        out.append(dict(same_chip=[[names[0], names[1]], [names[2]]],
                        locations=[[names[2], list(chips[0])]]))
        out.append(dict(same_chip=[[names[2], names[1]]],
                        locations=[[names[0], list(chips[0])],
                                   [names[2], list(chips[-1])]]))
    return out


def fam_general(params, tier, acc):
    placer, k, K = params["placer"], params["k"], params["K"]
    sizes = [(1, 1), (2, 1), (2, 2), (3, 1)]
    maxn = scope(tier)["general_vertices"]
    bound = scope(tier)["random_bound"] if placer == "rand" else 0
    i = -1
    for cfg in machine_configs(sizes, [1, 2, 3]):
        if cfg.get("exceptions") and cfg["reservations"]:
            continue
        i += 1
        if i % K != k:
            continue
        live = sorted(free_capacity(cfg))
        outside = (cfg["dead"][0] if cfg["dead"] else [cfg["w"], 0])
        for n in range(1, maxn + 1):
            names = ["v%d" % j for j in range(n)]
            for needs in itertools.product(NEEDS, repeat=n):
                if placer in ("sa_python", "sa_c") and n == maxn and \
                        needs.count(1) < n - 1:
                    continue
                verts = [[nm, nd] for nm, nd in zip(names, needs)]
                for cs in constraint_sets(names, live, outside):
                    for netk in (("chain",) if n < 3 else ("chain", "w")):
                        nets = chain_nets(names) if netk == "chain" else \
                            [[names[0], [names[1], names[2]], 2.5],
                             [names[2], [names[2]], 1.0],
                             [names[1], [names[0]], 0.0]]
                        case = dict(cfg, vertices=verts, nets=nets,
                                    placer=placer, fam="general", **cs)
                        if n >= 2 or cs:
                            acc.nontrivial += 1
                        run_case(case, acc, tier,
                                 bound if n <= 2 else 0)
                        if netk == "w" and cs.get("same_chip"):
                            # orders derived from sets of vertices follow
                            # the vertices' hashes: the same problem with
                            # two other kinds of vertex object
                            for vk in ("tuple", "fmt"):
                                run_case(dict(case, vkind=vk), acc, tier, 0)
        if i % 20 == 0:
            acc.sample(dict(fam="general", placer=placer, machine=cfg))


def fam_orders(params, tier, acc):
    """Sequential placer with every vertex order and every chip order."""
    for (w, h) in (((2, 1), (3, 1), (2, 2))[params["size"]],):
        chips = [(x, y) for x in range(w) for y in range(h)]
        for cap in (params["cap"],):
            for n in (params["n"],):
                names = ["v%d" % j for j in range(n)]
                for needs in itertools.product((0, 1, 2), repeat=n):
                    for cs in constraint_sets(names, chips, [w, 0]):
                        for vo in itertools.permutations(names):
                            for co in itertools.permutations(chips, min(
                                    len(chips), 3)):
                                case = dict(
                                    w=w, h=h, cap=cap, dead=[],
                                    reservations=[],
                                    vertices=[[a, b] for a, b in
                                              zip(names, needs)],
                                    nets=chain_nets(names),
                                    placer="sequential", fam="orders",
                                    vertex_order=list(vo),
                                    chip_order=[list(c) for c in co], **cs)
                                if len(co) < len(chips):
                                    # a partial chip order restricts the
                                    # machine: completeness not demanded
                                    case["partial_chip_order"] = True
                                acc.nontrivial += 1
                                run_case(case, acc, tier, 0)
    acc.sample(dict(fam="orders"))


def fam_tworesource(params, tier, acc):
    """Two resource types; a chip whose exception dictionary lists them in
    the other order; and machines on which no chip works at all."""
    placer = params["placer"]
    pairs = [(1, 1), (1, 3), (1, 4), (0, 2)]
    for (w, h) in ((2, 1), (2, 2)):
        chips = [(x, y) for x in range(w) for y in range(h)]
        for excv in (None, (1, 4), (2, 1), (2, 4)):
            for n in (2, 3):
                for needs in itertools.product(pairs, repeat=n):
                    names = ["v%d" % j for j in range(n)]
                    case = dict(w=w, h=h, cap=2, cap2=4, dead=[],
                                reservations=[],
                                vertices=[[nm, nd[0]] for nm, nd in
                                          zip(names, needs)],
                                needs2={nm: nd[1] for nm, nd in
                                        zip(names, needs)},
                                nets=chain_nets(names), placer=placer,
                                fam="tworesource", effort=1.0)
                    if excv:
                        case["exceptions2"] = [[list(chips[-1]), excv[0],
                                                excv[1]]]
                    acc.nontrivial += 1
                    run_case(case, acc, tier, 0)
    # no working chip at all
    for (w, h) in ((1, 1), (2, 1)):
        chips = [[x, y] for x in range(w) for y in range(h)]
        for n in (1, 2):
            names = ["v%d" % j for j in range(n)]
            case = dict(w=w, h=h, cap=2, dead=chips, reservations=[],
                        vertices=[[nm, 1] for nm in names],
                        nets=chain_nets(names), placer=placer,
                        fam="tworesource")
            acc.nontrivial += 1
            run_case(case, acc, tier, 0)
    acc.sample(dict(fam="tworesource", placer=placer))


def fam_tiny_random(params, tier, acc):
    """Full exploration of the owned random source on the smallest cases."""
    for placer in (params["placer"],):
        for (w, h) in (((2, 1), (3, 1))[params["size"]],):
            for needs in ((1, 1), (1, 1, 1), (2, 1), (1, 0, 1)):
                names = ["v%d" % j for j in range(len(needs))]
                for cs in ({}, dict(locations=[[names[0], [w - 1, 0]]]),
                           dict(same_chip=[[names[0], names[1]]])):
                    case = dict(w=w, h=h, cap=2, dead=[], reservations=[],
                                vertices=[[a, b] for a, b in zip(names,
                                                                 needs)],
                                nets=chain_nets(names), placer=placer,
                                fam="tiny_random", effort=1.0, **cs)
                    acc.nontrivial += 1
                    # thorough: three deviations for the uniform placer; an
                    # annealing run draws too many numbers for that
                    run_case(case, acc, tier,
                             3 if (tier != "quick" and placer == "rand")
                             else 2)
    acc.sample(dict(fam="tiny_random"))


def fam_sa_mixed(params, tier, acc):
    """Annealing with mixed vertex sizes on exactly-full chips: swaps that
    displace several vertices at once.  The owned random source is explored
    with one deviation from the fair stream; more temperature steps."""
    placer, k = params["placer"], params["k"]
    sets = [(3, 1, 2, 2), (3, 1, 2, 2, 2, 2), (3, 1, 1, 1, 2), (2, 2, 1, 3, 4),
            (3, 1, 2, 2, 4), (1, 1, 2, 3, 1), (4, 2, 2, 3, 1), (3, 3, 1, 1)]
    i = -1
    for (w, h) in ((2, 1), (3, 1), (2, 2)):
        for needs in sets:
            if sum(needs) > 4 * w * h:
                continue
            i += 1
            if i % 4 != k:
                continue
            names = ["v%d" % j for j in range(len(needs))]
            for netk in ("chain", "star"):
                nets = chain_nets(names) if netk == "chain" else \
                    [[names[0], names[1:], 1.0], [names[-1], [names[0]], 2.0]]
                case = dict(w=w, h=h, cap=4, dead=[], reservations=[],
                            vertices=[[a, b] for a, b in zip(names, needs)],
                            nets=nets, placer=placer, fam="sa_mixed",
                            effort=1.0,
                            steps=4 if tier == "quick" else 6)
                acc.nontrivial += 1
                # (two deviations take > 30 min: one, with more steps)
                run_case(case, acc, tier, 1)
    acc.sample(dict(fam="sa_mixed", placer=placer, sets=sets))


_must = must_succeed


def must_succeed(case):   # noqa  (partial chip orders waive completeness)
    if case.get("partial_chip_order"):
        return False
    return _must(case)


def run_shard(params, tier, acc):
    _hangs[0] = 0
    try:
        globals()["fam_" + params["fam"]](params, tier, acc)
    except _TooManyHangs:
        acc.cap("shard %r abandoned after two placer calls that did not "
                "terminate" % (params,))


def replay(case, acc):
    case = dict(case)
    choices = case.pop("choices", None) or []
    import mc.explore as ex
    g = globals()
    saved = g["explore"]

    def only(run, bound=None, budget=None, **kw):
        run(Chooser(choices, budget=budget))
        return 1
    g["explore"] = only
    _hangs[0] = 0
    try:
        run_case(case, acc, "quick", 0)
    except _TooManyHangs:
        pass
    finally:
        g["explore"] = saved


def selftest():
    case = dict(w=2, h=1, cap=2, dead=[], reservations=[[0, 1, None]],
                vertices=[["a", 1], ["b", 1], ["c", None]],
                same_chip=[["a", "b"], ["b", "c"]], locations=[])
    assert free_capacity(case) == {(0, 0): 1, (1, 0): 1}
    assert groups(case) == [["a", "b", "c"]]
    assert judge_placement(case, {"a": (0, 0), "b": (0, 0), "c": (0, 0)}) \
        is not None                # needs 2 on a chip with 1 free
    assert judge_placement(case, {"a": (0, 0), "b": (1, 0), "c": (1, 0)}) \
        is not None                # split group
    case2 = dict(case, same_chip=[])
    assert judge_placement(case2, {"a": (0, 0), "b": (1, 0), "c": (1, 0)}) \
        is None
    assert must_succeed(case2) and not must_succeed(case)
