"""C06 - SCP bursts complete each command exactly once despite loss, delay,
duplication, reordering and retryable / fatal replies.

E1 + E4: the real SCPConnection.send_scp_burst runs on a virtual socket, clock
and select.  Every datagram's fate is a choice point (default: prompt OK
reply); every callback's duration is a choice point (default: instantaneous).
All executions with at most d departures from the default are enumerated and a
monitor checks the protocol invariants on the recorded event log."""
import itertools
import signal
import struct

from mc.explore import explore, Chooser, BudgetExceeded
from mc.fakenet import Net, Patched, Livelock

PROPERTY = "C06"
LEVEL = "model_checking"
TECHNIQUE = ("stateless deviation-bounded exploration of every datagram-fate "
             "/ callback-duration sequence of the real send_scp_burst on a "
             "virtual network and clock, with a protocol monitor")
RULE = ("configurations = burst shapes x window x n_tries x extra-timeout "
        "pattern x sequence-number configuration; per configuration every "
        "execution with <= d deviations (fates: lost, duplicated, slow, at "
        "deadline, late by 1-2 timeouts, retryable code, fatal code; callback "
        "stalls). Non-trivial execution: at least one deviation. States = "
        "distinct abstract monitor states (per-command tries/answered, "
        "in-flight multiset); executions are distinct by construction")
ASSUMPTIONS = [
    "datagram fates are decided when the request is transmitted; arrival "
    "times are drawn from a menu relative to the command's timeout",
    "time only passes inside select() and (optionally) inside callbacks",
    "configuration 'wrap' replaces the sequence generator by a harness "
    "generator starting at 65534 (the library's generator has no start "
    "parameter); 'small' uses the library's generator with mask=3",
]

OK, SUM, BUSY, FATAL = 0x80, 0x82, 0x8d, 0x83
T_DEFAULT = 1.0          # default timeout (s)
FATES = ["ok", "lost", "dup", "slow", "deadline", "late1", "late2",
         "busy", "sum", "fatal", "fatal_late", "busy_dup", "busy_late"]
CB = ["instant", "stall"]


def scope(tier):
    q = tier == "quick"
    return dict(bursts=[[1], [2], [3], [5], [2, 2], [1, 3], [1, 4], [2, 3]],
                windows=[1, 2, 3], n_tries=[1, 2, 3],
                extra_timeout=["none", "first+0.5"],
                seq_configs=["real", "wrap", "small_bounded",
                             "small_unbounded"],
                bound_one_burst=3 if q else 4,
                bound_two_bursts=2 if q else 3,
                fates=FATES, callback=CB)


def shards(tier):
    sc = scope(tier)
    out = []
    for shape in sc["bursts"]:
        for w in sc["windows"]:
            if w > max(shape):
                continue
            for nt in sc["n_tries"]:
                for ex in sc["extra_timeout"]:
                    for sq in sc["seq_configs"]:
                        if tier == "quick":
                            # quick: full product only for the real counter;
                            # other counters with n_tries 2, no extra timeout
                            if sq != "real" and (nt != 2 or ex != "none"):
                                continue
                            if sq in ("small_bounded", "small_unbounded") \
                                    and len(shape) == 1 and shape[0] < 3:
                                continue
                        if sum(shape) >= 5 and sq in ("real", "wrap"):
                            # the five-command shapes exist to wrap the
                            # 2-bit counter
                            continue
                        bound = (sc["bound_one_burst"] if len(shape) == 1
                                 else sc["bound_two_bursts"])
                        out.append(dict(shape=shape, window=w, n_tries=nt,
                                        extra=ex, seq=sq, bound=bound))
    for nt in sc["n_tries"]:
        for ex in sc["extra_timeout"]:
            out.append(dict(shape=[1], window=1, n_tries=nt, extra=ex,
                            seq="real", bound=sc["bound_one_burst"],
                            via="send_scp"))
    out.append(dict(real_wrap_witness=True))
    out.append(dict(full_size_replies=True))
    return out


# --------------------------------------------------------------------------
def reply_bytes(req, rc, nonce_override=None):
    """SCP reply to request bytes `req` (echoes seq and arg1 = nonce)."""
    seq = struct.unpack_from("<H", req, 12)[0]
    nonce = req[14:18]
    hdr = b"\x00\x00" + bytes([0x07, req[3], req[5], req[4], req[8], req[9],
                               req[6], req[7]])
    return hdr + struct.pack("<2H", rc, seq) + nonce


class Endpoint(object):
    """Echo endpoint whose per-transmission fate is a choice point."""

    def __init__(self, ch, lifetime=None):
        self.ch = ch
        self.tx = {}            # nonce -> list of send times (ms)
        self.timeout_ms = {}    # nonce -> command timeout in ms
        self.lifetime = lifetime
        self.sends = 0
        self.fates = []
        self.observer = None

    def __call__(self, sock, data, net):
        nonce = struct.unpack_from("<I", data, 14)[0]
        self.tx.setdefault(nonce, []).append(net.now)
        self.sends += 1
        T = self.timeout_ms.get(nonce, int(T_DEFAULT * 1000))
        if self.observer:
            self.observer(net, "fate", nonce)
        f = FATES[self.ch.choose(len(FATES), "fate")]
        self.fates.append((nonce, f))
        meta = dict(nonce=nonce, kind=f, born=self.sends)
        L = net.LATENCY
        if f == "ok":
            return [(L, reply_bytes(data, OK), meta)]
        if f == "lost":
            return []
        if f == "dup":
            return [(L, reply_bytes(data, OK), meta),
                    (3 * L, reply_bytes(data, OK), dict(meta, copy=2))]
        if f == "slow":
            return [(5 * L, reply_bytes(data, OK), meta)]
        if f == "deadline":
            return [(T, reply_bytes(data, OK), meta)]
        if f == "late1":
            return [(T + 2, reply_bytes(data, OK), meta)]
        if f == "late2":
            return [(2 * T + 4, reply_bytes(data, OK), meta)]
        if f == "busy":
            return [(L, reply_bytes(data, BUSY), meta)]
        if f == "busy_dup":
            # the retryable answer is duplicated by the network
            return [(L, reply_bytes(data, BUSY), meta),
                    (3 * L, reply_bytes(data, BUSY), dict(meta, copy=2))]
        if f == "busy_late":
            # ... or arrives when the command has already been retransmitted
            return [(T + 2, reply_bytes(data, BUSY), meta)]
        if f == "sum":
            return [(L, reply_bytes(data, SUM), meta)]
        if f == "fatal":
            return [(L, reply_bytes(data, FATAL), meta)]
        if f == "fatal_late":
            return [(T + 2, reply_bytes(data, FATAL), meta)]
        raise AssertionError(f)


def harness_seqs(start, mask=0xffff):
    i = start
    while True:
        yield i
        i = (i + 1) & mask


class WallTimeout(BaseException):
    pass


def _wall_alarm(signum, frame):
    raise WallTimeout()


def run_execution(cfg, ch, acc, observer=None):
    """One execution of the configured bursts under chooser `ch`.
    Returns a list of (kind, sig-extra, message) problems."""
    from rig.machine_control import scp_connection as sc
    ep = Endpoint(ch)
    ep.observer = observer
    ep.called_all = {}
    net = Net(ep, budget=cfg.get("budget", 600))
    problems = []
    mask = 0xffff
    with Patched(net, [sc]):
        conn = sc.SCPConnection("host", n_tries=cfg["n_tries"],
                                timeout=T_DEFAULT)
        if cfg["seq"] == "wrap":
            conn.seq = harness_seqs(65534)
        elif cfg["seq"] in ("small_bounded", "small_unbounded"):
            conn.seq = sc.seqs(mask=3)
            mask = 3
        if cfg["seq"] == "small_bounded":
            # datagrams die once `mask` further transmissions have happened:
            # no reply can survive a complete wrap of the counter
            def reaper(n):
                keep = [e for e in n.inflight
                        if ep.sends - e[4]["born"] < mask]
                if len(keep) != len(n.inflight):
                    n.inflight[:] = keep
                    import heapq
                    heapq.heapify(n.inflight)
            net.on_select = reaper
        nonce0 = 0
        for b, n_cmds in enumerate(cfg["shape"]):
            called = {}       # nonce -> list of reply nonces
            ep.called = called
            cmds = []
            burst_nonces = []

            def make_cb(nonce):
                def cb(ack):
                    rn = struct.unpack_from("<I", ack, 14)[0]
                    rseq = struct.unpack_from("<H", ack, 12)[0]
                    called.setdefault(nonce, []).append((rn, rseq, net.now))
                    net.log.append(("callback", net.now, nonce, rn))
                    if ep.observer:
                        ep.observer(net, "callback", nonce)
                    if CB[ch.choose(len(CB), "callback")] == "stall":
                        net.now += int(2.5 * T_DEFAULT * 1000)
                return cb
            for i in range(n_cmds):
                nonce = 100 * (b + 1) + i
                extra = 0.5 if (cfg["extra"] == "first+0.5" and i == 0) \
                    else 0.0
                ep.timeout_ms[nonce] = int((T_DEFAULT + extra) * 1000)
                burst_nonces.append(nonce)
                cmds.append(sc.scpcall(1, 2, 0, 7, nonce, 0, 0, b"",
                                       make_cb(nonce), extra))
            log_start = len(net.log)
            outcome = "return"
            exc = None
            try:
                # wall-clock watchdog: a burst that spins without touching
                # the (virtual) environment cannot be seen by its step budget
                signal.signal(signal.SIGALRM, _wall_alarm)
                signal.alarm(20)
                try:
                    if cfg.get("via") == "send_scp":
                        # the single-command front end: its extra timeout
                        # must reach the burst it builds
                        nonce = burst_nonces[0]
                        extra = (ep.timeout_ms[nonce] / 1000.0) - T_DEFAULT
                        pkt = conn.send_scp(256, 1, 2, 0, 7, nonce, 0, 0,
                                            b"", expected_args=1,
                                            timeout=extra)
                        make_cb(nonce)(pkt.bytestring)
                    else:
                        conn.send_scp_burst(256, cfg["window"], iter(cmds))
                finally:
                    signal.alarm(0)
            except WallTimeout as e:
                problems.append(("no_termination", {},
                                 "burst %d still running after 20 s of wall "
                                 "clock time without exhausting the "
                                 "environment's step budget" % b))
                return problems, net, ep
            except sc.TimeoutError as e:
                outcome, exc = "timeout", e
            except sc.FatalReturnCodeError as e:
                outcome, exc = "fatal", e
            except (Livelock, BudgetExceeded) as e:
                problems.append(("no_termination", {},
                                 "burst %d does not terminate: %s" % (b, e)))
                return problems, net, ep
            except Exception as e:
                problems.append(("exception", dict(exc=type(e).__name__),
                                 "send_scp_burst raised %s: %s"
                                 % (type(e).__name__, e)))
                return problems, net, ep
            problems += monitor(cfg, net, ep, log_start, burst_nonces, called,
                                outcome, exc, mask)
            # a burst that ended with TimeoutError / FatalReturnCodeError does
            # not end the life of the connection: the next burst on it is
            # explored too (it must not inherit anything from the aborted one)
            if problems:
                break
    return problems, net, ep


def monitor(cfg, net, ep, log_start, nonces, called, outcome, exc, mask):
    P = []
    ev = net.log[log_start:]
    window = cfg["window"]
    n_tries = cfg["n_tries"]
    sent = {}            # nonce -> [times]
    answered = set()     # nonces for which an OK reply was received
    ok_received = {}     # nonce -> count of OK replies received by recv
    fatal_seen = None
    for e in ev:
        kind = e[0]
        if kind == "send":
            nonce = struct.unpack_from("<I", e[3], 14)[0]
            seq = struct.unpack_from("<H", e[3], 12)[0]
            if fatal_seen is not None:
                P.append(("send_after_fatal", {},
                          "command %d transmitted at %d ms after a fatal "
                          "return code was received at %d ms"
                          % (nonce, e[1], fatal_seen)))
            if nonce not in nonces:
                P.append(("foreign_send", {}, "datagram for unknown command "
                          "%d" % nonce))
                continue
            first = nonce not in sent
            sent.setdefault(nonce, []).append((e[1], seq))
            if first:
                unanswered = [n for n in sent if n not in answered]
                if len(unanswered) > window:
                    P.append(("window", {},
                              "at %d ms %d commands are unanswered (%r), "
                              "window is %d" % (e[1], len(unanswered),
                                                unanswered, window)))
            else:
                ts = sent[nonce]
                gap = ts[-1][0] - ts[-2][0]
                if gap < ep.timeout_ms[nonce]:
                    P.append(("early_retransmit", {},
                              "command %d retransmitted after %d ms, its "
                              "timeout is %d ms" % (nonce, gap,
                                                    ep.timeout_ms[nonce])))
                if len(ts) > n_tries:
                    P.append(("too_many_tries", {},
                              "command %d transmitted %d times, n_tries=%d"
                              % (nonce, len(ts), n_tries)))
                if ts[-1][1] != ts[0][1]:
                    P.append(("seq_changed", {}, "retransmission of %d "
                              "carries another sequence number" % nonce))
        elif kind == "recv":
            data, meta = e[3], e[4]
            rc = struct.unpack_from("<H", data, 10)[0]
            rn = struct.unpack_from("<I", data, 14)[0]
            if rc == OK:
                ok_received[rn] = ok_received.get(rn, 0) + 1
                # it answers the command currently holding that seq (if any)
                answered.add(rn)
            elif rc == FATAL and fatal_seen is None:
                fatal_seen = e[1]
        elif kind == "callback":
            nonce, rn = e[2], e[3]
            if fatal_seen is not None and False:
                pass
    # callbacks
    for nonce in nonces:
        calls = called.get(nonce, [])
        if len(calls) > 1:
            P.append(("callback_twice", {},
                      "callback of command %d invoked %d times"
                      % (nonce, len(calls))))
        for rn, rseq, t in calls:
            if rn != nonce:
                # which transmission produced that reply, and how many
                # sequence numbers were drawn in between?
                alias = classify_alias(net, ep, nonce, rn, rseq, mask)
                P.append(("callback_wrong_reply", dict(cause=alias),
                          "callback of command %d received the reply to "
                          "command %d (sequence number %d): %s"
                          % (nonce, rn, rseq, alias)))
    if outcome == "return":
        for nonce in nonces:
            if not called.get(nonce):
                P.append(("callback_missing", {},
                          "burst returned but callback of command %d was "
                          "never invoked" % nonce))
        if fatal_seen is not None:
            P.append(("fatal_ignored", {},
                      "a fatal return code was received at %d ms but the "
                      "burst returned normally" % fatal_seen))
    elif outcome == "timeout":
        pkt = getattr(exc, "packet", None)
        nonce = getattr(pkt, "arg1", None)
        if nonce not in nonces:
            P.append(("timeout_wrong_command", {},
                      "TimeoutError names %r, not a command of this burst"
                      % (pkt,)))
        else:
            if len(sent.get(nonce, [])) != n_tries:
                P.append(("timeout_tries", {},
                          "TimeoutError for command %d after %d "
                          "transmissions, n_tries=%d"
                          % (nonce, len(sent.get(nonce, [])), n_tries)))
            if ok_received.get(nonce):
                P.append(("timeout_but_replied", {},
                          "TimeoutError for command %d whose OK reply had "
                          "been received" % nonce))
        if fatal_seen is not None:
            P.append(("fatal_ignored", {}, "fatal code received but "
                      "TimeoutError raised"))
    elif outcome == "fatal":
        if fatal_seen is None:
            P.append(("spurious_fatal", {},
                      "FatalReturnCodeError raised (%s) but no fatal return "
                      "code was received" % exc))
    return P


def classify_alias(net, ep, nonce, rn, rseq, mask):
    """A wrong reply is the known sequence-number alias only if both commands
    legitimately held the same number one after the other: the earlier owner
    had been retired (its callback invoked) before the number was handed to
    the later command - which, the counter being cyclic, means that the
    counter went through a complete cycle in between.  A number handed out
    while its previous owner was still outstanding is a different defect."""
    first_send = {}
    retired_at = {}
    seq_of = {}
    for i, e in enumerate(net.log):
        if e[0] == "send":
            n = struct.unpack_from("<I", e[3], 14)[0]
            if n not in first_send:
                first_send[n] = i
                seq_of[n] = struct.unpack_from("<H", e[3], 12)[0]
        elif e[0] == "callback":
            retired_at.setdefault(e[2], i)
        elif e[0] == "recv":
            # an OK reply taken from the socket retires the owner of its
            # sequence number at once (the callback runs a little later)
            if struct.unpack_from("<H", e[3], 10)[0] == OK:
                retired_at.setdefault(struct.unpack_from("<I", e[3], 14)[0],
                                      i)
    if rn in first_send and nonce in first_send and \
            seq_of[rn] == seq_of[nonce] == rseq and \
            first_send[rn] < first_send[nonce]:
        if rn in retired_at and retired_at[rn] < first_send[nonce]:
            return "seq_alias_after_wrap"
        if rn // 100 < nonce // 100:
            # the earlier owner belonged to an earlier burst (nonces are
            # 100 * (burst + 1) + i); that burst has ended - normally or by an
            # exception - so all its commands are retired
            return "seq_alias_after_wrap"
        return "seq_assigned_while_previous_owner_outstanding"
    return "unrelated_reply"


def abstract_state(net, ep, what, nonce):
    tries = tuple(sorted((n, len(t)) for n, t in ep.tx.items()))
    done = tuple(sorted((n, len(c)) for n, c in ep.called.items()))
    infl = tuple(sorted((e[4]["nonce"], e[4]["kind"], e[0] - net.now)
                        for e in net.inflight))
    return (what, nonce, tries, done, infl)


class _EnoughViolations(Exception):
    pass


def explore_cfg(cfg, acc):
    states = set()
    transitions = set()
    bad_runs = [0]

    def run(ch):
        trail = []

        def observer(net, what, nonce):
            trail.append(hash(abstract_state(net, ep_box[0], what, nonce)))
        ep_box = [None]

        class Obs(object):
            def __call__(self, net, what, nonce):
                trail.append(hash(abstract_state(net, net.responder, what,
                                                 nonce)))
        problems, net, ep = run_execution(cfg, ch, acc, observer=Obs())
        acc.evaluations += 1
        acc.traces += 1
        if ch.deviations():
            acc.nontrivial += 1
        # state graph: state at each choice point --choice--> next state
        for i, st in enumerate(trail):
            states.add(st)
            nxt = trail[i + 1] if i + 1 < len(trail) else "end"
            if i < len(ch.choices):
                transitions.add((st, ch.choices[i], nxt))
        if ch.deviations() >= 2 or acc.evaluations % 5000 == 1:
            acc.sample(dict(config={k: cfg[k] for k in
                                    ("shape", "window", "n_tries", "seq")},
                            fates=[list(f) for f in ep.fates],
                            choices=list(ch.choices), problems=len(problems)))
        oc = ",".join(sorted(set(f for _, f in ep.fates)))
        acc.outcome("fates:" + oc if len(oc) < 40 else "fates:many")
        for kind, extra, msg in problems:
            sig = dict(kind=kind)
            if kind == "callback_wrong_reply":
                sig["seq_config"] = cfg["seq"]
            sig.update(extra)
            acc.violation(sig, dict(cfg=cfg, choices=list(ch.choices),
                                    labels=list(ch.labels)),
                          msg + "\n  config %r\n  fates %r" % (cfg, ep.fates),
                          size=len(ch.choices) + 10 * ch.deviations())
        # a configuration that keeps failing (other than by the recorded
        # sequence-number alias) is not explored to the end: broken code can
        # blow the execution tree up by orders of magnitude
        if any(not (k == "callback_wrong_reply" and
                    e.get("cause") == "seq_alias_after_wrap")
               for k, e, _ in problems):
            bad_runs[0] += 1
            if bad_runs[0] >= 300:
                raise _EnoughViolations()
    try:
        n = explore(run, bound=cfg["bound"], budget=400)
    except _EnoughViolations:
        n = acc.evaluations
        acc.cap("configuration %r abandoned after 300 violating executions"
                % ({k: cfg[k] for k in ("shape", "window", "n_tries",
                                        "seq")},))
    acc.states += len(states)
    acc.transitions += len(transitions)
    return n


def real_wrap_witness(acc):
    """D8 against the real 16-bit counter: a reply delayed across a full wrap
    of the sequence counter (65537 commands later) completes another
    command.  One execution, no exploration."""
    from rig.machine_control import scp_connection as sc

    class Script(object):
        def __init__(self):
            self.choices, self.labels, self.k = [], [], 0

        def choose(self, n, label, default=0):
            self.k += 1
            return 0

        def deviations(self):
            return 1
    ch = Script()
    ep = Endpoint(ch)
    held = []

    def responder(sock, data, net):
        nonce = struct.unpack_from("<I", data, 14)[0]
        ep.tx.setdefault(nonce, []).append(net.now)
        ep.sends += 1
        meta = dict(nonce=nonce, kind="ok", born=ep.sends)
        if nonce == 0 and len(ep.tx[nonce]) == 1:
            held.append((data, meta))      # first reply to command 0 is held
            return []
        if nonce == 65536 and held:
            # command 65536 re-uses sequence number 0: release the stale
            # reply to command 0 now and lose the genuine reply
            d, m = held.pop()
            return [(net.LATENCY, reply_bytes(d, OK), dict(m, kind="stale"))]
        return [(net.LATENCY, reply_bytes(data, OK), meta)]
    net = Net(responder, budget=10 ** 7)
    called = {}
    with Patched(net, [sc]):
        conn = sc.SCPConnection("host", n_tries=2, timeout=T_DEFAULT)

        def cmds():
            for nonce in range(65537):
                def cb(ack, nonce=nonce):
                    rn = struct.unpack_from("<I", ack, 14)[0]
                    rs = struct.unpack_from("<H", ack, 12)[0]
                    if rn != nonce:
                        called[nonce] = (rn, rs)
                yield sc.scpcall(1, 2, 0, 7, nonce, 0, 0, b"", cb, 0.0)
        acc.evaluations += 1
        acc.nontrivial += 1
        acc.traces += 1
        try:
            conn.send_scp_burst(256, 1, cmds())
        except Exception as e:
            acc.violation(dict(kind="exception", exc=type(e).__name__),
                          dict(real_wrap_witness=True),
                          "65537-command burst raised %r" % e)
            return
    for nonce, (rn, rs) in called.items():
        between = nonce - rn
        cause = ("seq_alias_after_wrap" if between >= 0x10000 else
                 "seq_reused_within_%d_commands" % between)
        acc.violation(dict(kind="callback_wrong_reply", cause=cause,
                           seq_config="real"),
                      dict(real_wrap_witness=True),
                      "real 16-bit counter: callback of command %d received "
                      "the reply to command %d (sequence number %d) which had "
                      "been delayed across a complete wrap of the counter"
                      % (nonce, rn, rs), size=1)
    acc.sample(dict(real_wrap_witness=True, commands=65537,
                    wrong_callbacks=len(called)))


def full_size_replies(acc):
    """Replies as long as the advertised buffer allows (every buffer size
    4..64 and sizes next to powers of two): the callback receives the whole
    reply to its command."""
    from rig.machine_control import scp_connection as sc
    sizes = list(range(4, 65)) + [115, 116, 117, 243, 244, 245, 256, 499,
                                  500, 501]
    for b in sizes:
        sent = {}

        def responder(sock, data, net, b=b):
            nonce = struct.unpack_from("<I", data, 14)[0]
            body = bytes(((nonce * 7 + i) & 0xff) for i in range(b - 4))
            pkt = reply_bytes(data, OK) + body
            sent[nonce] = pkt
            return [(net.LATENCY, pkt, dict(kind="ok", nonce=nonce))]
        net = Net(responder, budget=2000)
        got = {}
        acc.evaluations += 1
        acc.nontrivial += 1
        case = dict(full_size_replies=True, buffer=b)
        try:
            with Patched(net, [sc]):
                conn = sc.SCPConnection("host", n_tries=2, timeout=T_DEFAULT)
                cmds = [sc.scpcall(1, 2, 0, 7, n_, 0, 0, b"",
                                   (lambda ack, n_=n_: got.__setitem__(
                                       n_, bytes(ack))))
                        for n_ in (1, 2, 3)]
                conn.send_scp_burst(b, 2, iter(cmds))
        except Exception as e:
            acc.violation(dict(kind="full_size_reply"), case,
                          "buffer size %d: burst with full-size replies "
                          "raised %s: %s" % (b, type(e).__name__, e), size=b)
            continue
        for n_ in (1, 2, 3):
            if got.get(n_) != sent.get(n_):
                acc.violation(
                    dict(kind="full_size_reply"), case,
                    "buffer size %d: the machine replied to command %d with "
                    "%d bytes, the callback received %s"
                    % (b, n_, len(sent.get(n_, b"")),
                       "%d bytes" % len(got[n_]) if n_ in got else "nothing"),
                    size=b)
                break
    acc.sample(dict(full_size_replies=True, sizes=len(sizes)))


def run_shard(params, tier, acc):
    if params.get("full_size_replies"):
        full_size_replies(acc)
        return
    if params.get("real_wrap_witness"):
        real_wrap_witness(acc)
        return
    n = explore_cfg(params, acc)
    acc.sample(dict(config=params, executions=n))


def replay(case, acc):
    if case.get("full_size_replies"):
        full_size_replies(acc)
        return
    if case.get("real_wrap_witness"):
        real_wrap_witness(acc)
        return
    cfg = case["cfg"]
    ch = Chooser(case["choices"], budget=400)
    problems, net, ep = run_execution(cfg, ch, acc)
    if list(ch.labels[:len(case["labels"])]) != list(
            case["labels"][:len(ch.labels)]):
        raise RuntimeError("replay divergence: %r vs %r" % (ch.labels,
                                                            case["labels"]))
    for kind, extra, msg in problems:
        sig = dict(kind=kind)
        if kind == "callback_wrong_reply":
            sig["seq_config"] = cfg["seq"]
        sig.update(extra)
        acc.violation(sig, case, msg + "\n  fates %r" % (ep.fates,))


def selftest():
    req = b"\x00\x00" + bytes([0x87, 0xff, 0, 0xff, 2, 1, 0, 0]) + \
        struct.pack("<2H3I", 7, 42, 1234, 0, 0)
    r = reply_bytes(req, OK)
    assert struct.unpack_from("<2H", r, 10) == (OK, 42)
    assert struct.unpack_from("<I", r, 14)[0] == 1234
