"""C08 - bit-field keys are collision-free: fields never overlap or overflow.

E2/E3: definition / value / layout histories in canonical form (identifiers
introduced in alphabetical order) are executed on real BitField objects; in
every final state all complete value assignments are swept and the layout
invariants evaluated.  Four sub-explorations keep one dimension wide each:
layout (hierarchies x lengths x bit-field lengths), explicit positions, tags,
and operation orders."""
import collections
import itertools

PROPERTY = "C08"
LEVEL = "model_checking"
TECHNIQUE = ("bounded-exhaustive enumeration of field-definition histories in "
             "canonical form on the real BitField with an exhaustive sweep of "
             "value assignments per reached state; reference first-fit and "
             "backtracking layout search as oracles")
RULE = ("layout: every hierarchy of <=4 (thorough 5) fields whose scope is "
        "the root, one condition f=v or a conjunction of two, lengths from "
        "{1,2,auto(1),auto(3),auto(4)}, bit-field lengths tight-1/tight/"
        "tight+1; explicit: <=3 fields x start_at x length x L in {2,3,4}; "
        "tags: <=4 fields x 3 scope levels x tag sets; orders: every "
        "interleaving of define / give-value / assign_fields for <=3 fields. "
        "A history is non-trivial with >=2 fields; histories are distinct by "
        "construction; states counted = distinct canonical field trees")
ASSUMPTIONS = [
    "identifiers are opaque (canonical alphabetical introduction order); "
    "re-use of a name in a sibling scope is an explicit separate choice",
    "completeness is demanded only without explicit positions and when "
    "every co-enabled width sum fits (property text)",
]

NAMES = "abcdef"


def scope(tier):
    q = tier == "quick"
    return dict(layout_fields=4 if q else 5, explicit_fields=3,
                tags_fields=4, order_fields=3,
                layout_lengths=["1", "2", "auto1", "auto3", "auto4"])


# ---------------------------------------------------------------- programs
class Rejected(Exception):
    pass


def compatible(s1, s2):
    return all(s2.get(k, v) == v for k, v in s1.items())


def width_of(spec):
    return {"1": 1, "2": 2, "3": 3, "auto1": 1, "auto3": 2, "auto4": 3,
            "auto7": 3}[spec]


def maxval_of(spec):
    return {"auto1": 1, "auto3": 3, "auto4": 4, "auto7": 7}.get(spec)


def run_program(prog, acc, tier="quick"):
    """Execute a program on a real BitField and judge it.
    prog = dict(L=int, fields=[dict(name, scope, len, start, tags)],
                ops=[...] or None)
    Returns list of (kind, extra, msg)."""
    from rig.bitfield import BitField
    P = []
    L = prog["L"]
    fields = prog["fields"]
    by_name = {}
    bf = BitField(L)
    explicit = any(f.get("start") is not None for f in fields)
    ops = prog.get("ops")
    if ops is None:
        ops = []
        for i, f in enumerate(fields):
            ops.append(("def", i))
        for i, f in enumerate(fields):
            mv = maxval_of(f["len"]) if f["len"] else None
            if mv:
                ops.append(("val", i, mv))
        ops.append(("assign",))
    given = {}      # field index -> list of values accepted
    defined = []
    assigned_ok = False
    for op in ops:
        if op[0] == "def":
            f = fields[op[1]]
            ln = None if (f["len"] is None or f["len"].startswith("auto")) \
                else int(f["len"])
            try:
                bf(**f["scope"]).add_field(f["name"], length=ln,
                                           start_at=f.get("start"),
                                           tags=f.get("tags"))
                defined.append(op[1])
            except ValueError as e:
                # justified?
                why = def_rejection_justified(fields, defined, op[1], L)
                if not why:
                    P.append(("valid_definition_rejected", {},
                              "add_field(%r) in scope %r rejected: %s"
                              % (f["name"], f["scope"], e)))
                return P, "rejected_at_def"
            except Exception as e:
                P.append(("exception", dict(exc=type(e).__name__, at="def"),
                          "add_field raised %s: %s" % (type(e).__name__, e)))
                return P, "exception"
            assigned_ok = False
        elif op[0] == "val":
            f = fields[op[1]]
            if op[1] not in defined:
                continue
            try:
                kw = dict(f["scope"])
                kw[f["name"]] = op[2]
                bf(**kw)
                given.setdefault(op[1], []).append(op[2])
            except ValueError as e:
                # only legitimate when the value does not fit a fixed length
                fl = fixed_length(bf, f)
                if fl is None or op[2] < (1 << fl):
                    P.append(("value_rejected", {},
                              "value %d for field %r rejected: %s"
                              % (op[2], f["name"], e)))
            except Exception as e:
                P.append(("exception", dict(exc=type(e).__name__, at="val"),
                          "giving a value raised %s: %s"
                          % (type(e).__name__, e)))
                return P, "exception"
        elif op[0] == "assign":
            try:
                bf.assign_fields()
                assigned_ok = True
            except ValueError as e:
                return judge_assign_failure(prog, bf, fields, defined, given,
                                            L, explicit, e, P)
            except Exception as e:
                P.append(("exception", dict(exc=type(e).__name__,
                                            at="assign"),
                          "assign_fields raised %s: %s"
                          % (type(e).__name__, e)))
                return P, "exception"
    if assigned_ok:
        P += check_layout(bf, fields, defined, given, L)
        acc.states_seen.add(canon_tree(bf))
    return P, "assigned" if assigned_ok else "unassigned"


def fixed_length(bf, f):
    try:
        return bf.fields.get_field(f["name"], dict(f["scope"])).length
    except Exception:
        return None


def def_rejection_justified(fields, defined, i, L):
    f = fields[i]
    st = f.get("start")
    if st is None:
        return False
    ln = int(f["len"]) if f["len"] and not f["len"].startswith("auto") else 1
    if st < 0 or st + ln > L or st >= L:
        return True
    for j in defined:
        g = fields[j]
        if g.get("start") is None:
            continue
        gl = int(g["len"]) if g["len"] and not g["len"].startswith("auto") \
            else 1
        if compatible(f["scope"], g["scope"]) and \
                st < g["start"] + gl and g["start"] < st + ln:
            return True
    return False


def widths(fields, defined, given):
    w = {}
    for i in defined:
        f = fields[i]
        if f["len"] and not f["len"].startswith("auto"):
            w[i] = int(f["len"])
        else:
            mv = max(given.get(i, [1]) + [1])
            w[i] = max(1, mv.bit_length())
    return w


def complete_scopes(fields, defined, with_values=False):
    """All maximal consistent sets of co-enabled fields: enumerate total
    assignments of {0,1} to condition fields."""
    cond = sorted(set(k for i in defined for k in fields[i]["scope"]))
    out = set()
    for vals in itertools.product((0, 1), repeat=len(cond)):
        a = dict(zip(cond, vals))
        en = []
        for i in defined:
            f = fields[i]
            if all(a.get(k) == v for k, v in f["scope"].items()):
                en.append(i)
        # a condition field must itself be enabled for the condition to
        # count; fix-point
        changed = True
        while changed:
            changed = False
            names = set(fields[i]["name"] for i in en)
            for i in list(en):
                if any(k not in names for k in fields[i]["scope"]):
                    en.remove(i)
                    changed = True
        names = set(fields[i]["name"] for i in en)
        if with_values:
            out.add((tuple(en), tuple(sorted((k, v) for k, v in a.items()
                                             if k in names))))
        else:
            out.add(tuple(en))
    return out


def layout_exists(fields, defined, w, L):
    idx = list(defined)
    pos = {}
    for i in idx:
        if fields[i].get("start") is not None:
            pos[i] = fields[i]["start"]
    free = [i for i in idx if i not in pos]

    def ok(i, p):
        if p < 0 or p + w[i] > L:
            return False
        for j, q in pos.items():
            if j != i and compatible(fields[i]["scope"], fields[j]["scope"]) \
                    and p < q + w[j] and q < p + w[i]:
                return False
        return True
    for i, p in list(pos.items()):
        if not ok(i, p):
            return False

    def rec(k):
        if k == len(free):
            return True
        i = free[k]
        for p in range(0, L - w[i] + 1):
            if ok(i, p):
                pos[i] = p
                if rec(k + 1):
                    return True
                del pos[i]
        return False
    return rec(0)


def reference_first_fit(bf, fields, defined, w, L):
    """First-fit in the implementation's traversal order (children before
    parents, definition order inside a node - the order is read from the real
    tree object, the placing is done here), trying all L-w+1 positions."""
    order = []

    def walk(node):
        for req, child in node.children.items():
            walk(child)
        for name in node.fields:
            order.append((name, node))
    walk(bf.fields)
    name_scope = {}
    pos = {}
    # map tree fields back to program fields by (name, node identity order)
    remaining = list(defined)
    for name, node in order:
        cands = [i for i in remaining if fields[i]["name"] == name]
        if not cands:
            return None
        # the node's requirements are a subset of the program scope: pick the
        # first unplaced candidate whose tree field object matches
        chosen = None
        for i in cands:
            try:
                fo = bf.fields.get_field(name, dict(fields[i]["scope"]))
            except Exception:
                continue
            if fo is node.fields[name]:
                chosen = i
                break
        if chosen is None:
            return None
        remaining.remove(chosen)
        i = chosen
        placed = None
        for p in range(0, L - w[i] + 1):
            clash = False
            for j, q in pos.items():
                if compatible(fields[i]["scope"], fields[j]["scope"]) and \
                        p < q + w[j] and q < p + w[i]:
                    clash = True
                    break
            if not clash:
                placed = p
                break
        if placed is None:
            return False
        pos[i] = placed
    return True


def judge_assign_failure(prog, bf, fields, defined, given, L, explicit, e, P):
    w = widths(fields, defined, given)
    sums_fit = all(sum(w[i] for i in en) <= L
                   for en in complete_scopes(fields, defined))
    if explicit or not sums_fit:
        return P, "assign_failed"
    # completeness clause applies
    ff = reference_first_fit(bf, fields, defined, w, L)
    if ff is False:
        P.append(("incomplete_layout", dict(reference_first_fit="fails_too"),
                  "assign_fields failed (%s) although every co-enabled width "
                  "sum fits in %d bits; a first-fit in definition order "
                  "cannot place the fields either (packing heuristic is not "
                  "complete); a layout %s"
                  % (e, L, "exists" if layout_exists(fields, defined, w, L)
                     else "does not exist")))
    else:
        P.append(("incomplete_layout", dict(reference_first_fit="succeeds"),
                  "assign_fields failed (%s) although no field is explicitly "
                  "positioned, every co-enabled width sum fits in %d bits and "
                  "a plain first-fit places all fields" % (e, L)))
    return P, "assign_failed"


def check_layout(bf, fields, defined, given, L):
    from rig.routing_table.utils import intersect  # noqa (not used as oracle)
    P = []
    w = widths(fields, defined, given)
    # tag model: declared tags plus tags of every field depending on it
    tagm = {}
    for i in defined:
        tagm[i] = set((fields[i].get("tags") or "").split()) \
            if isinstance(fields[i].get("tags"), str) or \
            fields[i].get("tags") is None else set(fields[i]["tags"])
    for i in defined:
        for j in defined:
            if fields[j]["name"] in fields[i]["scope"] and \
                    compatible(fields[j]["scope"], fields[i]["scope"]):
                tagm[j] |= set((fields[i].get("tags") or "").split()) \
                    if not isinstance(fields[i].get("tags"), (set, list)) \
                    else set(fields[i]["tags"])
    # closure needs iteration (grand-children)
    for _ in range(4):
        for i in defined:
            for j in defined:
                if fields[j]["name"] in fields[i]["scope"] and \
                        compatible(fields[j]["scope"], fields[i]["scope"]):
                    tagm[j] |= tagm[i]
    keys = []
    for en, condvals in sorted(complete_scopes(fields, defined, True)):
        if not en:
            continue
        # values: condition fields take the value of this assignment
        need = dict(condvals)
        base = {}
        for i in en:
            nm = fields[i]["name"]
            base[nm] = need.get(nm, 0)
        variants = [dict(base)]
        hi = dict(base)
        for i in en:
            nm = fields[i]["name"]
            if nm not in need:
                hi[nm] = max(given.get(i, [1]) + [1])
        variants.append(hi)
        locs = {}
        for vals in variants:
            try:
                view = bf(**vals)
                for i in en:
                    locs[i] = view.get_location_and_length(fields[i]["name"])
                value = view.get_value()
                mask = view.get_mask()
            except Exception as e:
                P.append(("readback_exception", dict(exc=type(e).__name__),
                          "with values %r: %s: %s" % (vals, type(e).__name__,
                                                      e)))
                return P
            want_mask = 0
            for i in en:
                st, ln = locs[i]
                if st < 0 or ln < 1 or st + ln > L:
                    P.append(("out_of_range", {},
                              "field %r occupies bits [%d,%d) of a %d-bit "
                              "bit field" % (fields[i]["name"], st, st + ln,
                                             L)))
                    return P
                if ln < w[i]:
                    P.append(("too_narrow", {},
                              "field %r is %d bits wide but was given a value "
                              "needing %d" % (fields[i]["name"], ln, w[i])))
                    return P
                m = ((1 << ln) - 1) << st
                if want_mask & m:
                    other = [fields[j]["name"] for j in en if j != i and
                             (((1 << locs[j][1]) - 1) << locs[j][0]) & m]
                    P.append(("overlap", {},
                              "fields %r and %r can be present together "
                              "(values %r) and share bits: %r"
                              % (fields[i]["name"], other, vals,
                                 {fields[j]["name"]: locs[j] for j in en})))
                    return P
                want_mask |= m
                if (value >> st) & ((1 << ln) - 1) != vals[fields[i]["name"]]:
                    P.append(("readback", {},
                              "value of %r read back from key %#x at %r is "
                              "not %r" % (fields[i]["name"], value, locs[i],
                                          vals[fields[i]["name"]])))
                    return P
            if mask != want_mask:
                P.append(("mask", {}, "get_mask() = %#x, union of present "
                          "fields = %#x (values %r)" % (mask, want_mask,
                                                        vals)))
                return P
            keys.append((value, mask, tuple(sorted(vals.items()))))
            # the same key seen one field at a time
            for i in en:
                nm = fields[i]["name"]
                st, ln = locs[i]
                m = ((1 << ln) - 1) << st
                try:
                    got = (view.get_value(field=nm), view.get_mask(field=nm),
                           getattr(view, nm))
                except Exception as e:
                    got = "%s: %s" % (type(e).__name__, e)
                if got != (value & m, m, vals[nm]):
                    P.append(("field_view", {},
                              "(get_value(field=%r), get_mask(field=%r), .%s)"
                              " = %r; key %#x, field at %r, value %r"
                              % (nm, nm, nm, got, value, locs[i], vals[nm])))
                    return P
            # tags
            alltags = set()
            for i in en:
                alltags |= tagm[i]
            for t in sorted(alltags):
                tm = 0
                for i in en:
                    if t in tagm[i]:
                        tm |= ((1 << locs[i][1]) - 1) << locs[i][0]
                try:
                    got = view.get_mask(tag=t)
                except Exception as e:
                    got = "%s: %s" % (type(e).__name__, e)
                try:
                    gv = view.get_value(tag=t)
                except Exception as e:
                    gv = "%s: %s" % (type(e).__name__, e)
                if got == tm and gv != value & tm:
                    P.append(("tag_value", {},
                              "get_value(tag=%r) = %r, the key %#x restricted "
                              "to the tag's mask %#x is %#x; values %r"
                              % (t, gv, value, tm, value & tm, vals)))
                    return P
                if got != tm:
                    P.append(("tag_mask", {},
                              "get_mask(tag=%r) = %r, union of the tag's "
                              "present fields (incl. those they depend on) = "
                              "%#x; values %r" % (t, got, tm, vals)))
                    return P
            for i in en:
                try:
                    gt = view.get_tags(fields[i]["name"])
                except Exception as e:
                    gt = repr(e)
                if gt != tagm[i]:
                    P.append(("tags", {},
                              "get_tags(%r) = %r, expected %r"
                              % (fields[i]["name"], gt, tagm[i])))
                    return P
    # two different complete assignments never match each other
    for (k1, m1, v1), (k2, m2, v2) in itertools.combinations(keys, 2):
        if v1 != v2 and (k1 ^ k2) & m1 & m2 == 0:
            P.append(("keys_collide", {},
                      "assignments %r and %r give key/mask %#x/%#x and "
                      "%#x/%#x which match each other"
                      % (dict(v1), dict(v2), k1, m1, k2, m2)))
            return P
    return P


def canon_tree(bf):
    def c(node):
        return (tuple((n, f.length, f.start_at, tuple(sorted(f.tags)),
                       f.max_value) for n, f in node.fields.items()),
                tuple((req, c(ch)) for req, ch in node.children.items()))
    return hash((bf.length, c(bf.fields)))


# --------------------------------------------------------- program families
def scopes_for(fields):
    """Every scope in which a new field may be defined: root, one condition
    f=v, or a conjunction of two conditions, closed under requirements."""
    out = [{}]
    singles = []
    for f in fields:
        for v in (0, 1):
            s = dict(f["scope"])
            s[f["name"]] = v
            singles.append(s)
    out += singles
    # conjunction of two conditions on two fields of the same tree node (the
    # implementation's tree cannot express conditions spanning nodes other
    # than by nesting)
    for f, g in itertools.combinations(fields, 2):
        if f["scope"] == g["scope"]:
            for v in (0, 1):
                for w in (0, 1):
                    u = dict(f["scope"])
                    u[f["name"]] = v
                    u[g["name"]] = w
                    out.append(u)
    # drop duplicates
    uniq = []
    for s in out:
        if s not in uniq:
            uniq.append(s)
    return uniq


def hierarchies(n, reuse_names=False):
    """All canonical hierarchies of exactly n fields (scopes only)."""
    def rec(fields):
        if len(fields) == n:
            yield [dict(f) for f in fields]
            return
        name = NAMES[len(set(f["name"] for f in fields))]
        for s in scopes_for(fields):
            if not all(any(g["name"] == k and compatible(g["scope"], s)
                           for g in fields) for k in s):
                continue
            yield from rec(fields + [dict(name=name, scope=s)])
            if reuse_names:
                # the same identifier again in a mutually exclusive scope
                for old in sorted(set(f["name"] for f in fields)):
                    if old in s:
                        continue
                    if all(not compatible(g["scope"], s) for g in fields
                           if g["name"] == old):
                        yield from rec(fields + [dict(name=old, scope=s)])
    yield from rec([])


def shards(tier):
    sc = scope(tier)
    out = []
    for n in range(1, sc["layout_fields"] + 1):
        for k in range(16 if n >= 4 else 1):
            out.append(dict(fam="layout", n=n, k=k, K=16 if n >= 4 else 1))
    for k in range(8):
        out.append(dict(fam="explicit", k=k, K=8))
    out.append(dict(fam="tags"))
    for k in range(4):
        out.append(dict(fam="orders", k=k, K=4))
    out.append(dict(fam="big"))
    out.append(dict(fam="extra"))
    return out


def report(prog, P, acc):
    for kind, extra, msg in P:
        sig = dict(kind=kind)
        sig.update(extra)
        acc.violation(sig, prog, msg + "\n  program: " + describe(prog),
                      size=len(prog["fields"]) * 10 + prog["L"])


def describe(prog):
    fs = []
    for f in prog["fields"]:
        fs.append("%s|%s len=%s start=%s tags=%s" % (
            f["name"], ",".join("%s=%d" % kv for kv in
                                sorted(f["scope"].items())) or "root",
            f["len"], f.get("start"), f.get("tags")))
    return "L=%d; " % prog["L"] + "; ".join(fs) + (
        "; ops=%r" % (prog["ops"],) if prog.get("ops") else "")


def fam_layout(params, tier, acc):
    n, k, K = params["n"], params["k"], params["K"]
    lens = scope(tier)["layout_lengths"]
    if n >= 5:
        lens = ["1", "2", "auto3"]
    i = -1
    for h in hierarchies(n, reuse_names=True):
        i += 1
        if i % K != k:
            continue
        for ls in itertools.product(lens, repeat=n):
            fields = [dict(f, len=l, start=None, tags=None)
                      for f, l in zip(h, ls)]
            given = {j: [maxval_of(l)] for j, l in enumerate(ls)
                     if maxval_of(l)}
            w = widths(fields, list(range(n)), given)
            tight = max(sum(w[j] for j in en)
                        for en in complete_scopes(fields, list(range(n))))
            for L in (tight - 1, tight, tight + 1):
                if L < 1:
                    continue
                prog = dict(L=L, fields=fields)
                acc.evaluations += 1
                if n >= 2:
                    acc.nontrivial += 1
                P, outcome = run_program(prog, acc, tier)
                acc.outcome(outcome)
                report(prog, P, acc)
        if i % 50 == 0:
            acc.sample(dict(fam="layout", hierarchy=[
                (f["name"], f["scope"]) for f in h]))


def fam_explicit(params, tier, acc):
    k, K = params["k"], params["K"]
    i = -1
    for n in (1, 2, 3):
        for h in hierarchies(n):
            if any(len(f["scope"]) > 1 for f in h):
                continue
            for L in (2, 3, 4, 5):
                if n == 3 and L == 5:
                    continue
                starts = sorted(set([None, -1, 0, 1, L - 2, L - 1, L]),
                                key=lambda x: (x is None, x))
                lens = (None, "1", "2")
                if n <= 2:
                    # two fields: every position and lengths up to 3 (one
                    # field strictly enclosing the other)
                    starts = [None] + list(range(-1, L + 1))
                    # "autoN": automatic length with the value N given, so
                    # that the field grows towards its fixed neighbours
                    lens = (None, "1", "2", "3", "auto3", "auto7")
                for specs in itertools.product(
                        itertools.product(starts, lens), repeat=n):
                    i += 1
                    if i % K != k:
                        continue
                    if all(s is None for s, _ in specs):
                        continue
                    fields = [dict(f, len=l, start=s, tags=None)
                              for f, (s, l) in zip(h, specs)]
                    prog = dict(L=L, fields=fields)
                    acc.evaluations += 1
                    acc.nontrivial += 1
                    P, outcome = run_program(prog, acc, tier)
                    acc.outcome("explicit_" + outcome)
                    report(prog, P, acc)
    acc.sample(dict(fam="explicit", k=k))


def fam_tags(params, tier, acc):
    tagsets = [None, "t", "t u"]
    for n in (2, 3, 4):
        for h in hierarchies(n):
            depth = max(len(f["scope"]) for f in h)
            if n == 4 and depth < 2:
                continue
            for ts in itertools.product(tagsets, repeat=n):
                if all(t is None for t in ts):
                    continue
                fields = [dict(f, len="1", start=None, tags=t)
                          for f, t in zip(h, ts)]
                prog = dict(L=8, fields=fields)
                acc.evaluations += 1
                acc.nontrivial += 1
                P, outcome = run_program(prog, acc, tier)
                acc.outcome("tags_" + outcome)
                report(prog, P, acc)
    # tags given as a (shared) set / list object
    shared = {"s"}
    for h in hierarchies(3):
        fields = [dict(f, len="1", start=None, tags=None) for f in h]
        fields[0]["tags"] = shared
        fields[1]["tags"] = shared
        fields[2]["tags"] = ["z"]
        prog = dict(L=8, fields=fields)
        acc.evaluations += 1
        acc.nontrivial += 1
        P, outcome = run_program(prog, acc, tier)
        report(dict(prog, fields=[dict(f, tags=sorted(f["tags"])
                                       if f["tags"] else None)
                                  for f in fields], shared_tag_set=True),
               P, acc)
        if shared != {"s"}:
            acc.violation(dict(kind="tags_argument_modified"),
                          dict(L=8, fields=[], shared_tag_set=True),
                          "the set passed as tags= was modified: %r" % shared)
            shared = {"s"}
    acc.sample(dict(fam="tags", tagsets=tagsets))


def fam_orders(params, tier, acc):
    k, K = params["k"], params["K"]
    i = -1
    for n in (1, 2, 3):
        for h in hierarchies(n):
            for ls in itertools.product(["1", "auto", "2"], repeat=n):
                fields = [dict(f, len=None if l == "auto" else l, start=None,
                               tags=None) for f, l in zip(h, ls)]
                # op multiset: def_i, val_i (value 3 for auto / 2-bit fields,
                # 1 otherwise; plus an oversize value for fixed 1-bit), assign
                base = []
                for j in range(n):
                    base.append(("def", j))
                    base.append(("val", j, 3 if ls[j] != "1" else 2))
                base.append(("assign",))
                for perm in set(itertools.permutations(base)):
                    # definitions in canonical order; a value after its def
                    pos = {op: ix for ix, op in enumerate(perm)}
                    ok = all(pos[("def", j)] < pos[("def", j + 1)]
                             for j in range(n - 1))
                    ok = ok and all(
                        pos[("def", j)] < pos[("val", j,
                                                3 if ls[j] != "1" else 2)]
                        for j in range(n))
                    if not ok:
                        continue
                    i += 1
                    if i % K != k:
                        continue
                    ops = list(perm) + [("assign",)]
                    prog = dict(L=8, fields=fields, ops=[list(o) for o in ops])
                    acc.evaluations += 1
                    acc.nontrivial += 1
                    P, outcome = run_program(
                        dict(prog, ops=[tuple(o) for o in ops]), acc, tier)
                    acc.outcome("orders_" + outcome)
                    report(prog, P, acc)
    acc.sample(dict(fam="orders", k=k))


def fam_big(params, tier, acc):
    """Wide bit fields and large values (bit_length corner cases)."""
    for L in (8, 32, 64):
        for v in sorted(set([1, 2, 3, 255, 256, 2 ** 31 - 1, 2 ** 31,
                             2 ** 32 - 1, 2 ** 48 - 1, 2 ** 48, 2 ** 53 - 1,
                             2 ** 53, 2 ** 63 - 1, 2 ** L - 1])):
            if v.bit_length() > L:
                continue
            for other in (0, 1):
                fields = [dict(name="a", scope={}, len=None, start=None,
                               tags=None)]
                if other and v.bit_length() < L:
                    fields.append(dict(name="b", scope={}, len="1",
                                       start=None, tags=None))
                ops = [("def", j) for j in range(len(fields))] + \
                    [("val", 0, v), ("assign",)]
                prog = dict(L=L, fields=fields, ops=[list(o) for o in ops])
                acc.evaluations += 1
                acc.nontrivial += 1
                P, outcome = run_program(dict(prog, ops=ops), acc, tier)
                acc.outcome("big_" + outcome)
                # the field must be exactly wide enough to succeed: completeness
                report(prog, P, acc)
    # witness of the known packing incompleteness (5 fields, see
    # known_findings.json); the thorough tier reaches it by enumeration
    F = lambda n, sc, l: dict(name=n, scope=sc, len=l, start=None,  # noqa
                              tags=None)
    prog = dict(L=5, fields=[F("a", {}, "1"), F("b", {}, "1"),
                             F("c", {"a": 0}, "1"), F("d", {"b": 0}, "1"),
                             F("e", {"a": 1}, "2")])
    acc.evaluations += 1
    acc.nontrivial += 1
    P, outcome = run_program(prog, acc, tier)
    acc.outcome("witness_" + outcome)
    report(prog, P, acc)
    acc.sample(dict(fam="big"))


def fam_extra(params, tier, acc):
    """Direct scenarios around state that outlives a call: masks asked for
    before and after the field tree grows, calls that are rejected half-way,
    scopes keyed on values that are not small integers."""
    from rig.bitfield import BitField

    def fresh_int(v):
        # an int object that is equal but never identical to a literal
        return int(str(v))

    def bad(kind, msg, **case):
        acc.violation(dict(kind=kind), dict(extra=True, scenario=kind, **case),
                      msg)

    def bits(bf_inst, name):
        return bf_inst.get_mask(field=name)
    # (a) masks of a long-lived instance follow the field tree
    for grow in ("child", "top", "tagged_child"):
        for ask_tag in (None, "t"):
            acc.evaluations += 1
            acc.nontrivial += 1
            try:
                bf = BitField(12)
                bf.add_field("p", length=1, tags="t")
                bf.add_field("x", length=2)
                inst = bf(p=0)
                bf.assign_fields()
                m0 = inst.get_mask(tag=ask_tag)
                r0 = bf.get_mask(tag=ask_tag)
                if grow == "child":
                    bf(p=fresh_int(0)).add_field("c", length=2, tags="t")
                elif grow == "tagged_child":
                    inst.add_field("c", length=3, tags="t u")
                else:
                    bf.add_field("c", length=2, tags="t")
                bf.assign_fields()
                m1 = inst.get_mask(tag=ask_tag)
                want = bf(p=0).get_mask(tag=ask_tag)
                cbits = bf(p=0).get_mask(field="c")
                if m1 != want or (m1 & cbits) != cbits:
                    bad("stale_mask", "instance bf(p=0) reports mask %#x "
                        "(tag %r) after field c was added (%s) and laid out; "
                        "a new instance with the same values reports %#x, c "
                        "occupies %#x; before the addition the mask was %#x"
                        % (m1, ask_tag, grow, want, cbits, m0), grow=grow,
                        tag=ask_tag)
                r1 = bf.get_mask(tag=ask_tag)
                if grow == "top" and r1 != BitField.get_mask(
                        bf(), tag=ask_tag):
                    bad("stale_mask", "root instance mask %#x differs from "
                        "a new root instance's" % r1, grow=grow, tag=ask_tag)
            except Exception as e:
                bad("extra_exception", "mask scenario %s/%r raised %s: %s"
                    % (grow, ask_tag, type(e).__name__, e), grow=grow,
                    tag=ask_tag)
    # (b) a rejected call leaves nothing behind
    for big in (3, 7, 255):
        for lb in (1, 2):
            for third in (False, True):
                for how in ("too_large", "unknown_field", "negative"):
                    acc.evaluations += 1
                    acc.nontrivial += 1
                    L = 1 + lb + (2 if third else 0)
                    try:
                        bf = BitField(L)
                        bf.add_field("a")
                        bf.add_field("b", length=lb)
                        if third:
                            bf.add_field("c")
                        kw = collections.OrderedDict()
                        kw["a"] = big
                        if third:
                            kw["c"] = 200
                        if how == "too_large":
                            kw["b"] = 1 << lb
                        elif how == "negative":
                            kw["b"] = -1
                        else:
                            kw["zz"] = 1
                        try:
                            bf(**kw)
                            bad("bad_call_accepted", "bf(%r) was accepted"
                                % (dict(kw),), big=big, lb=lb, how=how)
                            continue
                        except Exception:
                            pass
                        bf(a=1)
                        if third:
                            bf(c=3)
                        bf.assign_fields()
                        wa = bin(bf.get_mask(field="a")).count("1")
                        if wa != 1 or (third and bin(bf.get_mask(
                                field="c")).count("1") != 2):
                            bad("rejected_call_left_state", "field widths "
                                "after a rejected call: a has %d bits" % wa,
                                big=big, lb=lb, how=how)
                    except Exception as e:
                        bad("rejected_call_left_state",
                            "after the rejected call bf(%r) the fields (a: "
                            "largest accepted value 1%s; b: %d bits) no "
                            "longer fit %d bits: %s: %s"
                            % (dict(kw), "; c: largest accepted value 3"
                               if third else "", lb, L, type(e).__name__, e),
                            big=big, lb=lb, how=how, third=third)
    # (c) scopes keyed on values that are not small cached integers
    for v in (0, 1, 2, 255, 256, 257, 300, 1000, 65534):
        acc.evaluations += 1
        acc.nontrivial += 1
        try:
            bf = BitField(24)
            bf.add_field("p", length=16)
            bf(p=v).add_field("c", length=2)
            bf(p=fresh_int(v + 1)).add_field("d", length=3)
            bf(p=fresh_int(v)).add_field("e", length=1)
            bf.assign_fields()
            inst = bf(p=fresh_int(v))
            want = (bf.get_mask(field="p") | inst.get_mask(field="c") |
                    inst.get_mask(field="e"))
            if inst.get_mask() != want or bin(want).count("1") != 19:
                bad("scope_value_identity", "bf(p=%d).get_mask() = %#x, the "
                    "fields present (p, c, e) occupy %#x"
                    % (v, inst.get_mask(), want), value=v)
            k = bf(p=fresh_int(v), c=3, e=1)
            if k.get_value() & inst.get_mask(field="c") != \
                    inst.get_mask(field="c") or k.c != 3 or k.e != 1:
                bad("scope_value_identity", "bf(p=%d, c=3, e=1) reads back "
                    "c=%r e=%r" % (v, k.c, k.e), value=v)
            try:
                bf(p=fresh_int(v), d=1)
                bad("scope_value_identity", "field d (scope p=%d) accepted "
                    "when p=%d" % (v + 1, v), value=v)
            except Exception:
                pass
        except Exception as e:
            bad("scope_value_identity", "scope keyed on p=%d: %s: %s"
                % (v, type(e).__name__, e), value=v)
    # (d) masks of partially specified keys in a hierarchy two levels deep:
    # a field is present only when every field its scope names has the
    # required value
    for tags in (None, "t"):
        acc.evaluations += 1
        acc.nontrivial += 1
        try:
            bf = BitField(16)
            bf.add_field("kind", length=1, tags=tags)
            bf(kind=0).add_field("sub", length=1, tags=tags)
            bf(kind=0, sub=0).add_field("g0", length=2, tags=tags)
            bf(kind=0, sub=1).add_field("g1", length=3, tags=tags)
            bf(kind=1).add_field("y", length=4, tags=tags)
            bf(kind=1, y=3).add_field("z", length=2, tags=tags)
            bf.assign_fields()
            full0 = bf(kind=0, sub=0)
            full1 = bf(kind=0, sub=1)
            fy = bf(kind=1, y=3)
            m = dict(kind=bf.get_mask(field="kind"),
                     sub=full0.get_mask(field="sub"),
                     g0=full0.get_mask(field="g0"),
                     g1=full1.get_mask(field="g1"),
                     y=fy.get_mask(field="y"), z=fy.get_mask(field="z"))
            checks = [
                ("bf()", bf, ["kind"]),
                ("bf(kind=0)", bf(kind=0), ["kind", "sub"]),
                ("bf(kind=1)", bf(kind=1), ["kind", "y"]),
                ("bf(kind=0, sub=0)", full0, ["kind", "sub", "g0"]),
                ("bf(kind=0, sub=1)", full1, ["kind", "sub", "g1"]),
                ("bf(kind=1, y=3)", fy, ["kind", "y", "z"]),
                ("bf(kind=1, y=2)", bf(kind=1, y=2), ["kind", "y"])]
            for label, inst, present in checks:
                want = 0
                for f_ in present:
                    want |= m[f_]
                for tg in ((None,) if tags is None else (None, tags)):
                    got = inst.get_mask(tag=tg)
                    if got != want:
                        bad("partial_key_mask", "%s.get_mask(tag=%r) = %#x, "
                            "the fields present (%s) occupy %#x"
                            % (label, tg, got, ", ".join(present), want),
                            label=label, tag=tg)
        except Exception as e:
            bad("extra_exception", "partial-key scenario raised %s: %s"
                % (type(e).__name__, e), tag=tags)
    acc.sample(dict(fam="extra"))


def run_shard(params, tier, acc):
    acc.states_seen = set()
    globals()["fam_" + params["fam"]](params, tier, acc)
    acc.states += len(acc.states_seen)
    acc.transitions += acc.evaluations
    acc.traces += acc.evaluations
    del acc.states_seen


def replay(case, acc):
    acc.states_seen = set()
    if case.get("extra"):
        fam_extra({}, "quick", acc)
        del acc.states_seen
        return
    prog = dict(case)
    if prog.get("ops"):
        prog["ops"] = [tuple(o) for o in prog["ops"]]
    if prog.get("shared_tag_set"):
        fam_tags({}, "quick", acc)
        del acc.states_seen
        return
    P, outcome = run_program(prog, acc)
    report(case, P, acc)
    del acc.states_seen


def selftest():
    fields = [dict(name="a", scope={}), dict(name="b", scope={"a": 0}),
              dict(name="c", scope={"a": 1})]
    assert complete_scopes(fields, [0, 1, 2]) == {(0, 1), (0, 2)}
    assert compatible({"a": 0}, {"b": 1}) and not compatible({"a": 0},
                                                             {"a": 1})
    hs = list(hierarchies(2))
    assert len(hs) == 3          # b at root, under a=0, under a=1
    f2 = [dict(name="a", scope={}, len="1", start=None),
          dict(name="b", scope={}, len="2", start=None)]
    assert layout_exists(f2, [0, 1], {0: 1, 1: 2}, 3)
    assert not layout_exists(f2, [0, 1], {0: 1, 1: 2}, 2)
