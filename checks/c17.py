"""C17 - library calls neither modify their arguments nor remember earlier
calls.

E2 over call histories: from a pristine interpreter state (a freshly started
server process that forks one child per history) every sequence of <=2
(thorough 3) library calls with differing arguments is followed by every probe
call; the probe's result must equal the result the same probe gives as the
first call of a fresh interpreter, every call's arguments must be unchanged
(deep snapshots) and the library's hidden mutable state (default arguments,
module globals, class attributes, found by introspection) is recorded as the
state of the search."""
import json
import os
import subprocess
import sys

PROPERTY = "C17"
LEVEL = "model_checking"
TECHNIQUE = ("explicit-state search over library call histories, each run in "
             "a child forked from a pristine interpreter, with fresh-"
             "interpreter probe results as reference, deep argument "
             "snapshots and introspected hidden state")
RULE = ("alphabet of ~27 calls (every placer, allocate, route x radii, table "
        "generation, each minimiser with/without target, bit fields, machine "
        "and board controllers with context nesting, boot, both wrappers); "
        "every history of <=2 calls (thorough: 3 over a reduced alphabet) x "
        "every probe. State = hash of hidden mutable state; transitions = "
        "calls. Non-trivial: history of >=1 call before the probe")
ASSUMPTIONS = [
    "the reference of a probe is its result as the first library call of a "
    "fresh interpreter; seeded generators (random.Random(n), random.seed) "
    "are part of the probe",
    "the hexagon memo may grow; its entries must equal a fresh computation",
]

HERE = os.path.dirname(os.path.abspath(__file__))


def scope(tier):
    return dict(depth=2 if tier == "quick" else 3,
                calls=len(call_table()) if False else "see samples")


# ---------------------------------------------------------------------------
# The alphabet.  Every entry builds its own arguments, snapshots them, calls
# the library and returns (canonical result, list of modified arguments).
# ---------------------------------------------------------------------------
def canon(o):
    import enum
    from rig.place_and_route.routing_tree import RoutingTree
    if isinstance(o, enum.Enum):
        return int(o)
    if isinstance(o, RoutingTree):
        return ("T", tuple(o.chip), tuple(sorted(
            (repr(None if r is None else int(r)), canon(c))
            for r, c in o.children)))
    if isinstance(o, dict):
        return ("D", tuple(sorted(((canon(k), canon(v)) for k, v in
                                   o.items()), key=repr)))
    if isinstance(o, (set, frozenset)):
        return ("S", tuple(sorted((canon(x) for x in o), key=repr)))
    if isinstance(o, (list, tuple)):
        return ("L", tuple(canon(x) for x in o))
    if isinstance(o, slice):
        return ("sl", o.start, o.stop)
    if hasattr(o, "source") and hasattr(o, "sinks"):
        return ("N", o.source, tuple(o.sinks), o.weight)
    if hasattr(o, "__dict__") and type(o).__module__.startswith("rig"):
        return (type(o).__name__, canon(vars(o)))
    if isinstance(o, (int, float, str, bytes, type(None), bool)):
        return o
    if hasattr(o, "name") and hasattr(o, "value"):
        return int(o)
    return repr(o)


def problem(variant=0):
    """Graph / machine / constraints shared (by name) between calls."""
    from rig.place_and_route import Machine, Cores, SDRAM
    from rig.netlist import Net
    from rig.links import Links
    from rig.place_and_route.constraints import (
        SameChipConstraint, LocationConstraint, ReserveResourceConstraint)
    # (a and b share a chip: their SDRAM needs are not multiples of the
    # wrapper's alignment of 4, so a stale alignment shows in the slices)
    vr = {"a": {Cores: 1, SDRAM: 6}, "b": {Cores: 1, SDRAM: 3},
          "c": {Cores: 2}, "d": {Cores: 1}}
    nets = [Net("a", ["b", "c"], 1.0), Net("c", ["d", "a"], 2.0),
            Net("d", ["d"], 0.5)]
    if variant == 1:
        vr["e"] = {Cores: 1}
        nets.append(Net("e", ["a", "b"], 1.0))
    machine = Machine(3, 2 + (variant == 1), chip_resources={Cores: 4, SDRAM: 64},
                      chip_resource_exceptions={(1, 1): {Cores: 3,
                                                         SDRAM: 32}},
                      dead_chips={(2, 0)} if variant == 1 else set(),
                      dead_links={(0, 0, Links.east)})
    cons = [ReserveResourceConstraint(Cores, slice(0, 1)),
            SameChipConstraint(["a", "b"]),
            LocationConstraint("d", (0, 1))]
    if variant == 2:
        # a device vertex with a route endpoint that also belongs to a
        # same-chip group
        from rig.place_and_route.constraints import RouteEndpointConstraint
        from rig.routing_table import Routes
        vr["dev"] = {}
        nets.append(Net("a", ["dev"], 1.0))
        cons.append(RouteEndpointConstraint("dev", Routes.north))
        cons.append(SameChipConstraint(["dev", "c"]))
    return vr, nets, machine, cons


def snap(*objs):
    return repr(canon(list(objs)))


def placed(variant=0):
    from rig.place_and_route.place import sequential
    vr, nets, machine, cons = problem(variant)
    return vr, nets, machine, cons, sequential.place(vr, nets, machine, cons)


def routed(variant=0, radius=20):
    import random
    from rig.place_and_route import allocate, route
    vr, nets, machine, cons, pl = placed(variant)
    al = allocate(vr, nets, machine, cons, pl)
    random.seed(7)
    rt = route(vr, nets, machine, cons, pl, al, radius=radius)
    return vr, nets, machine, cons, pl, al, rt


def tables(variant=0):
    from rig.routing_table import routing_tree_to_tables
    vr, nets, machine, cons, pl, al, rt = routed(variant)
    keys = {n: (i << 2, 0xfffffffc) for i, n in enumerate(nets)}
    return rt, keys, routing_tree_to_tables(rt, keys)


def scramble(o, depth=0):
    """The result of a call belongs to the caller: empty every list, dict
    and set reachable from it (after it has been recorded).  A later call
    must not be affected."""
    from rig.place_and_route.routing_tree import RoutingTree
    if depth > 6:
        return
    if isinstance(o, RoutingTree):
        scramble(o.children, depth + 1)
        return
    if isinstance(o, dict):
        for v in list(o.values()):
            scramble(v, depth + 1)
        o.clear()
    elif isinstance(o, list):
        for v in list(o):
            scramble(v, depth + 1)
        del o[:]
    elif isinstance(o, set):
        o.clear()
    elif isinstance(o, tuple):
        for v in o:
            scramble(v, depth + 1)


def with_args(build, call):
    args = build()
    before = snap(*args)
    res = call(*args)
    after = snap(*args)
    out = canon(res)
    try:
        scramble(res)
    except Exception:
        pass
    return out, ([] if before == after else ["arguments"])


def c_place(mod, variant=0, **kw):
    def f():
        import copy
        import importlib
        m = importlib.import_module("rig.place_and_route.place." + mod)
        return with_args(lambda: problem(variant) + (copy.deepcopy(kw),),
                         lambda vr, nets, ma, co, k: m.place(vr, nets, ma, co,
                                                             **k))
    return f


def c_place_dl(mod):
    """The same problem on a machine of the same shape whose dead links
    differ (every link between columns 0 and 1 is dead one way)."""
    def f():
        import importlib
        from rig.links import Links
        m = importlib.import_module("rig.place_and_route.place." + mod)

        def build():
            vr, nets, machine, cons = problem(0)
            machine.dead_links = set(
                [(0, y, l) for y in range(machine.height)
                 for l in (Links.east, Links.north_east)] +
                [(1, y, Links.north) for y in range(machine.height)])
            return vr, nets, machine, cons
        return with_args(build, lambda vr, nets, ma, co: m.place(vr, nets, ma,
                                                                 co))
    return f


class _V(object):
    """A vertex object whose hash depends on how many such objects the
    process created before (a deterministic stand-in for the address-based
    default hash): where it lands in a set depends on the history of the
    process, not on the arguments of the call."""
    _created = [0]

    def __init__(self, name):
        self.name = name
        _V._created[0] += 1
        self._h = hash(("rigverif", _V._created[0]))

    def __hash__(self):
        return self._h

    def __repr__(self):
        return "V(%s)" % self.name


def c_place_objects(mod):
    """Sequential-type placer with object vertices, an explicit vertex order
    and a same-chip group: the result, read by vertex name, is a function of
    the arguments only."""
    def f():
        import importlib
        from rig.place_and_route import Machine, Cores
        from rig.netlist import Net
        from rig.place_and_route.constraints import SameChipConstraint
        m = importlib.import_module("rig.place_and_route.place." + mod)
        vs = [_V("v%d" % i) for i in range(8)]
        vr = {v: {Cores: 1} for v in vs}
        nets = [Net(vs[i], [vs[(i + 3) % 8]]) for i in range(8)]
        machine = Machine(3, 2, chip_resources={Cores: 2})
        cons = [SameChipConstraint([vs[5], vs[1]]),
                SameChipConstraint([vs[6], vs[2]])]
        kw = {}
        if mod == "sequential":
            kw["vertex_order"] = list(vs)
        pl = m.place(vr, nets, machine, cons, **kw)
        return canon(sorted((v.name, tuple(c)) for v, c in pl.items())), []
    return f


def c_rand(variant=0):
    def f():
        import random
        from rig.place_and_route.place import rand
        return with_args(lambda: problem(variant),
                         lambda vr, nets, ma, co: rand.place(
                             vr, nets, ma, co, random=random.Random(11)))
    return f


def c_sa(kernel, variant=0):
    def f():
        import random
        from rig.place_and_route.place.sa import algorithm as sa
        from rig.place_and_route.place.sa.python_kernel import PythonKernel
        kw = {}
        if kernel == "py":
            kw["kernel"] = PythonKernel
        else:
            from rig.place_and_route.place.sa.c_kernel import CKernel
            kw["kernel"] = CKernel
        return with_args(lambda: problem(variant),
                         lambda vr, nets, ma, co: sa.place(
                             vr, nets, ma, co, effort=0.3,
                             random=random.Random(5), **kw))
    return f


def c_allocate(variant=0):
    def f():
        from rig.place_and_route import allocate
        return with_args(lambda: placed(variant),
                         lambda vr, nets, ma, co, pl: allocate(vr, nets, ma,
                                                               co, pl))
    return f


def c_route(radius, variant=0):
    def f():
        import random
        from rig.place_and_route import route

        def call(vr, nets, ma, co, pl, al, _rt):
            random.seed(7)
            return route(vr, nets, ma, co, pl, al, radius=radius)
        return with_args(lambda: routed(variant, radius), call)
    return f


def c_tables(variant=0):
    def f():
        from rig.routing_table import routing_tree_to_tables
        return with_args(lambda: tables(variant)[:2],
                         lambda rt, keys: routing_tree_to_tables(rt, keys))
    return f


def some_table(which):
    from rig.routing_table import RoutingTableEntry as E, Routes as R
    m = 0xffffffff
    if which == 0:
        return [E({R.north}, 0x1, m, {R.south}), E({R.north}, 0x2, m),
                E({R.core(1)}, 0x4, m), E({R.core(1)}, 0x5, m),
                E({R.east}, 0x0, 0xfffffff8)]
    if which == 1:
        return [E({R.north}, 0x7, m), E({R.north}, 0x8, m)]
    if which == 5:
        # orthogonal entries NOT in order of generality (the general entry
        # comes first): the caller's list must keep its order
        return [E({R.east}, 0x8, 0xfffffff8), E({R.north}, 0x1, m),
                E({R.north}, 0x2, m), E({R.core(1)}, 0x4, m)]
    if which == 3:
        # merges to 00XX
        return [E({R.north}, 0x1, m), E({R.north}, 0x2, m)]
    if which == 4:
        # a genuine 00XX entry below two entries whose merge (XX00) would
        # cover one of its keys
        return [E({R.south}, 0x4, m), E({R.south}, 0x8, m),
                E({R.east}, 0x0, 0xfffffffc)]
    return [E({R.east}, 0x4, m), E({R.east}, 0x8, m),
            E({R.south}, 0x0, 0xfffffff3)]


def c_min(fn, which, target):
    def f():
        from rig.routing_table import MinimisationFailedError
        from rig.routing_table import remove_default_routes, \
            ordered_covering
        from rig.routing_table.minimise import minimise_table, \
            minimise_tables

        def call(table):
            try:
                if fn == "rde":
                    return remove_default_routes.minimise(table, target)
                if fn == "oc":
                    return ordered_covering.minimise(table, target)
                if fn == "mt":
                    return minimise_table(table, target)
                return minimise_tables({(0, 0): table,
                                        (1, 0): some_table((which + 1) % 5),
                                        (1, 1): some_table((which + 3) % 5)},
                                       target)
            except MinimisationFailedError as e:
                return ("failed", e.final_length)
        return with_args(lambda: (some_table(which),), call)
    return f


def c_min_list(which):
    """The minimisers to try are given as a LIST of the caller's (the
    default is a tuple): the list is an argument like any other."""
    def f():
        from rig.routing_table import MinimisationFailedError
        from rig.routing_table import remove_default_routes, \
            ordered_covering
        from rig.routing_table.minimise import minimise_table, \
            minimise_tables

        def call(table, methods):
            n0 = len(methods)
            try:
                if which == "mt":
                    out = minimise_table(table, None, methods)
                else:
                    out = minimise_tables({(0, 0): table,
                                           (1, 0): some_table(1),
                                           (1, 1): some_table(3)},
                                          None, methods)
            except MinimisationFailedError as e:
                out = ("failed", e.final_length)
            return (out, len(methods) - n0)
        return with_args(lambda: (some_table(0),
                                  [remove_default_routes.minimise,
                                   ordered_covering.minimise]), call)
    return f


def c_route_partial():
    """route() given allocations that lack one sink (a vertex that needs
    nothing), and route() relying on its default for `allocations`."""
    def f():
        import random
        from rig.place_and_route import route

        def build():
            vr, nets, ma, co, pl, al, _rt = routed(0, 20)
            al = dict(al)
            al.pop("b", None)
            return vr, nets, ma, co, pl, al

        def call(vr, nets, ma, co, pl, al):
            random.seed(7)
            r1 = route(vr, nets, ma, co, pl, al)
            random.seed(7)
            r2 = route(vr, nets, ma, co, pl)
            return (r1, r2)
        return with_args(build, call)
    return f


def c_oc_aliases():
    """ordered_covering() asked to go on minimising an already minimised
    table: the caller supplies the alias dictionary of the earlier result
    (000X stands for 0000 and 0001) - dictionary and the sets in it are
    arguments like any other."""
    def f():
        from rig.routing_table import RoutingTableEntry as E, Routes as R
        from rig.routing_table.ordered_covering import ordered_covering
        M = 0xfffffff0

        def build():
            table = [E({R.north}, 0b0000, M | 0b1110),
                     E({R.north}, 0b0010, M | 0b1110),
                     E({R.south}, 0b1000, M | 0b1111)]
            aliases = {(0b0000, M | 0b1110): {(0b0000, M | 0b1111),
                                              (0b0001, M | 0b1111)}}
            return table, aliases
        return with_args(build, lambda t, a: ordered_covering(t, None, a))
    return f


def c_bitfield(which):
    def f():
        from rig.bitfield import BitField
        tags = {"t"} if which else ["u"]
        bf = BitField(16)
        bf.add_field("a", length=2 + which, tags=tags)
        bf.add_field("b", tags="x" if which else None)
        bf(a=1).add_field("c", length=3, tags="y")
        bf(a=0).add_field("c", length=1 + which)
        bf(a=1, b=5 + which, c=2)
        bf.assign_fields()
        v = bf(a=1, b=3, c=1)
        out = [v.get_value(), v.get_mask(), bf.get_tags("a"),
               bf.get_tags("b"), v.get_location_and_length("c"),
               bf(a=0, b=1, c=1).get_value()]
        return canon(out), ([] if (tags == {"t"} or tags == ["u"])
                            else ["tags"])
    return f


def c_controller(which):
    def f():
        sys.path.insert(1, os.path.dirname(HERE))
        from mc.ctl import Session
        from mc.sim import SimMachine
        from mc.runner import REPO
        sim = SimMachine(REPO, 2, 2)
        sim.full_sync = False
        ctx = {"app_id": 30 + which}
        with Session(sim, initial_context=ctx) as s:
            mc = s.mc
            with mc(x=1, y=which):
                mc.write(0x60000000, b"abcd")
                with mc(p=1 + which):
                    mc.read(0x60000000, 4)
                    a = mc.sdram_alloc(8)
            with mc.application(40 + which):
                mc.send_signal("start")
            out = [(r["raw_chip"], r["cpu"], r["cmd"], r["arg1"], r["arg2"])
                   for r in sim.cmds]
            out.append(mc.get_context_arguments())
        return canon(out), ([] if ctx == {"app_id": 30 + which}
                            else ["initial_context"])
    return f


def c_controller_kwonly(which):
    """Methods whose contextual arguments are keyword-only (send_scp,
    load_application): explicit values in one call, omitted in the next."""
    def f():
        import tempfile
        sys.path.insert(1, os.path.dirname(HERE))
        from mc.ctl import Session
        from mc.sim import SimMachine
        from mc.runner import REPO
        sim = SimMachine(REPO, 2, 2)
        sim.full_sync = False
        out = []
        with tempfile.NamedTemporaryFile(suffix=".aplx") as tf:
            tf.write(bytes(range(40)))
            tf.flush()
            with Session(sim) as s:
                mc = s.mc
                try:
                    if which == 0:
                        mc.send_scp(0, x=1, y=1, p=3)
                        mc.load_application({tf.name: {(0, 0): {1}}},
                                            app_id=30, wait=True)
                    else:
                        try:
                            mc.send_scp(0)
                            out.append("send_scp without x/y/p accepted")
                        except TypeError:
                            out.append("TypeError")
                        with mc(x=0, y=1, p=2):
                            mc.send_scp(0)
                        mc.load_application({tf.name: {(1, 0): {2}}},
                                            app_id=31)
                except Exception as e:
                    out.append("%s: %s" % (type(e).__name__, e))
                out += [(r["raw_chip"], r["cpu"], r["cmd"], r["arg1"] &
                         0xffffff, r["arg2"]) for r in sim.cmds
                        if r["cmd"] not in (2, 3)]
                out.append(sorted((xy, c.core_state[1:4])
                                  for xy, c in sim.chips.items()))
        return canon(out), []
    return f


def c_controller_default(which):
    def f():
        sys.path.insert(1, os.path.dirname(HERE))
        from mc.fakenet import Net, Patched
        from rig.machine_control import scp_connection as sc
        from rig.machine_control import machine_controller as mcm
        from rig.machine_control import bmp_controller as bm
        net = Net(lambda sock, data, net: [], budget=10 ** 6)
        with Patched(net, [sc, mcm, bm]):
            mc = mcm.MachineController("host")
            bc = bm.BMPController("bmp")
            out = [mc.get_context_arguments(), bc.get_context_arguments()]
            mc.update_current_context(app_id=10 + which, x=which)
            bc.update_current_context(board=3 + which)
            with mc(y=1):
                mc.update_current_context(p=which)
            out.append(mc.get_context_arguments())
        return canon(out), []
    return f


def c_boot(which):
    def f():
        sys.path.insert(1, os.path.dirname(HERE))
        from mc.fakenet import Net, Patched
        from rig.machine_control import boot as bootmod
        sent = []
        net = Net(lambda sock, data, net: sent.append(bytes(data)) or [],
                  budget=10 ** 6)
        net.now = 1500000000000
        opts = dict(bootmod.spin3_boot_options) if which == 0 else \
            ({} if which == 1 else {"led1": 0x77, "cpu_clk": 150})
        given = dict(opts)
        with Patched(net, [bootmod]):
            st = bootmod.boot("board", **opts) if which != 2 else \
                bootmod.boot("board", sv_overrides=opts)
        import hashlib
        return canon([len(sent), hashlib.sha1(b"".join(sent)).hexdigest(),
                      st[b"sv"][b"hw_ver"].default,
                      st[b"sv"][b"led1"].default]), \
            ([] if given == opts else ["sv_overrides"])
    return f


def c_wrapper(which):
    def f():
        import random
        import warnings
        import importlib
        W = importlib.import_module("rig.place_and_route.wrapper")
        from rig.place_and_route import Cores
        vr, nets, machine, cons = problem(0)
        keys = {n: (i << 2, 0xfffffffc) for i, n in enumerate(nets)}
        va = {v: "app" for v in vr}
        from rig.place_and_route.place import hilbert
        random.seed(3)
        before = snap(vr, nets, machine, cons, keys, va)
        with warnings.catch_warnings():
            warnings.simplefilter("ignore")
            if which == 0:
                res = W.wrapper(vr, va, nets, keys, machine, cons,
                                place=hilbert.place)
            elif which == 1:
                # no monitor reservation: the caller's constraint list is
                # still only read
                res = W.wrapper(vr, va, nets, keys, machine, cons,
                                reserve_monitor=False, align_sdram=True,
                                place=hilbert.place)
            else:
                res = W.wrapper(vr, va, nets, keys, machine,
                                reserve_monitor=False, align_sdram=True,
                                place=hilbert.place)
        after = snap(vr, nets, machine, cons, keys, va)
        return canon(res), ([] if before == after else ["arguments"])
    return f


def c_machine():
    def f():
        from rig.place_and_route import Machine, Cores
        m = Machine(2, 2)
        m.chip_resources[Cores] = 1
        m.dead_chips.add((0, 0))
        m.chip_resource_exceptions[(1, 1)] = {Cores: 0}
        m2 = Machine(2, 2)
        return canon([m2.chip_resources, m2.dead_chips,
                      m2.chip_resource_exceptions, m2.dead_links]), []
    return f


def call_table():
    t = [
        ("seq", c_place("sequential")),
        ("seq_v1", c_place("sequential", 1)),
        ("seq_order", c_place("sequential", 0,
                              vertex_order=["d", "c", "b", "a"],
                              chip_order=[(2, 1), (1, 1), (0, 1), (0, 0),
                                          (1, 0), (2, 0)])),
        ("bfs", c_place("breadth_first")),
        # (only the placer that is given an explicit vertex order: the
        # orders that breadth-first search, Hilbert and RCM derive from sets
        # of vertices follow the vertices' hash order by construction)
        ("seq_objects", c_place_objects("sequential")),
        ("hilbert", c_place("hilbert", 1)),
        ("hilbert_dev", c_place("hilbert", 2)),
        ("route_dev", c_route(20, 2)),
        ("rcm", c_place("rcm")),
        ("rcm_dl", c_place_dl("rcm")),
        ("rand", c_rand()),
        ("sa_py", c_sa("py")),
        ("sa_c", c_sa("c", 1)),
        ("allocate", c_allocate()),
        ("route0", c_route(0)),
        ("route2", c_route(2, 1)),
        ("route20", c_route(20)),
        ("route3", c_route(3)),
        ("route1", c_route(1, 1)),
        ("tables", c_tables()),
        ("rde", c_min("rde", 0, None)),
        ("oc", c_min("oc", 0, None)),
        ("oc_b", c_min("oc", 1, None)),
        ("oc_c", c_min("oc", 2, None)),
        ("oc_a2", c_min("oc", 3, None)),
        ("oc_p2", c_min("oc", 4, None)),
        ("oc_unsorted", c_min("oc", 5, None)),
        ("mt_unsorted", c_min("mt", 5, None)),
        ("oc_t", c_min("oc", 0, 3)),
        ("oc_aliases", c_oc_aliases()),
        ("mt_list", c_min_list("mt")),
        ("mts_list", c_min_list("mts")),
        ("route_partial", c_route_partial()),
        ("mt", c_min("mt", 2, 1)),
        ("mts", c_min("mts", 1, None)),
        ("bitfield0", c_bitfield(0)),
        ("bitfield1", c_bitfield(1)),
        ("mc0", c_controller(0)),
        ("mc1", c_controller(1)),
        ("mc_kwonly0", c_controller_kwonly(0)),
        ("mc_kwonly1", c_controller_kwonly(1)),
        ("mc_default0", c_controller_default(0)),
        ("mc_default1", c_controller_default(1)),
        ("boot_spin3", c_boot(0)),
        ("boot_plain", c_boot(1)),
        ("boot_dict", c_boot(2)),
        ("wrapper", c_wrapper(0)),
        ("wrapper_nomon", c_wrapper(1)),
        ("wrapper_defcons", c_wrapper(2)),
        ("machine", c_machine()),
    ]
    return t


# ---------------------------------------------------------------------------
def hidden_state():
    """Canonical digest of the library's hidden mutable state."""
    import types
    out = []
    for name, mod in sorted(sys.modules.items()):
        if not (name == "rig" or name.startswith("rig.")) or mod is None:
            continue
        for attr, v in sorted(vars(mod).items()):
            if attr.startswith("__"):
                continue
            if isinstance(v, (dict, list, set)) and not attr.isupper():
                if attr == "_concentric_hexagons":
                    out.append((name + "." + attr, sorted(v)))
                    continue
                out.append((name + "." + attr, repr(canon(v))[:2000]))
            fns = []
            if isinstance(v, types.FunctionType) and \
                    v.__module__ == name:
                fns.append((attr, v))
            elif isinstance(v, type) and v.__module__ == name:
                for a2, v2 in vars(v).items():
                    f = getattr(v2, "__func__", v2)
                    if isinstance(f, types.FunctionType):
                        fns.append((attr + "." + a2, f))
                    elif isinstance(v2, (dict, list, set)):
                        out.append((name + "." + attr + "." + a2,
                                    repr(canon(v2))[:500]))
            for fname, f in fns:
                seen = set()
                while f is not None and id(f) not in seen:
                    seen.add(id(f))
                    for d in (f.__defaults__ or ()):
                        if isinstance(d, (dict, list, set)):
                            out.append((name + "." + fname + ".default",
                                        repr(canon(d))[:500]))
                    for k, d in (f.__kwdefaults__ or {}).items():
                        if isinstance(d, (dict, list, set)):
                            out.append((name + "." + fname + ".kw." + k,
                                        repr(canon(d))[:500]))
                    f = getattr(f, "__wrapped__", None)
    return out


def memo_ok():
    from rig.place_and_route.route import ner
    from rig.geometry import concentric_hexagons
    for r, v in ner._concentric_hexagons.items():
        if tuple(v) != tuple(concentric_hexagons(r)):
            return "memoised hexagons for radius %r differ from a fresh " \
                   "computation" % (r,)
    return None


def server(repo, tier, first):
    """Runs in a fresh interpreter: forks one child per history."""
    sys.path.insert(0, repo)
    sys.path.insert(1, os.path.dirname(HERE))
    os.environ["RIG_VERIF_REPO"] = repo
    import warnings
    warnings.simplefilter("ignore")
    import rig.place_and_route, rig.routing_table, rig.bitfield  # noqa
    import rig.machine_control  # noqa
    table = call_table()
    names = [n for n, _ in table]
    fns = dict(table)
    depth = 2 if tier == "quick" else 3
    out = sys.stdout

    def run_child(hist, probe):
        r, w = os.pipe()
        pid = os.fork()
        if pid == 0:
            os.close(r)
            res = dict(hist=hist, probe=probe)
            try:
                mods = []
                states = []
                for c in hist:
                    try:
                        _, m = fns[c]()
                    except Exception as e:
                        m = ["raised %s: %s" % (type(e).__name__, e)]
                    mods.append(m)
                states.append(hash(repr(hidden_state())))
                res["mods"] = mods
                res["states"] = states
                try:
                    val, m = fns[probe]()
                    res["result"] = repr(val)
                    res["probe_mods"] = m
                except Exception as e:
                    res["result"] = "raised %s: %s" % (type(e).__name__, e)
                    res["probe_mods"] = []
                res["memo"] = memo_ok()
            except BaseException as e:
                res["crash"] = repr(e)
            os.write(w, json.dumps(res, default=repr).encode())
            os._exit(0)
        os.close(w)
        data = b""
        while True:
            chunk = os.read(r, 65536)
            if not chunk:
                break
            data += chunk
        os.close(r)
        os.waitpid(pid, 0)
        return json.loads(data.decode())

    if first == "__ref__":
        for p in names:
            res = run_child([], p)
            res.pop("hidden", None)
            out.write(json.dumps(res) + "\n")
        return
    seconds = names if depth >= 2 else []
    reduced = [n for n in names if n in (
        "seq", "route20", "oc", "oc_b", "bitfield1", "mc0", "boot_spin3",
        "sa_py", "tables", "machine")]
    for p in names:
        res = run_child([first], p)
        res.pop("hidden", None)
        out.write(json.dumps(res) + "\n")
    probes2 = [n for n in names if n in (
        "seq", "route20", "oc", "oc_c", "oc_p2", "mts", "bitfield1", "mc0", "mc_default1",
        "boot_plain", "sa_py", "machine", "tables", "rde")]
    for b in seconds:
        for p in (probes2 if tier == "quick" else names):
            res = run_child([first, b], p)
            res.pop("hidden", None)
            out.write(json.dumps(res) + "\n")
    if depth >= 3 and first in reduced:
        for b in reduced:
            for c in reduced:
                for p in names:
                    res = run_child([first, b, c], p)
                    res.pop("hidden", None)
                    out.write(json.dumps(res) + "\n")


def run_server(first, tier):
    from mc.runner import REPO
    env = dict(os.environ, PYTHONHASHSEED="0", PYTHONDONTWRITEBYTECODE="1")
    p = subprocess.run([sys.executable, "-B", "-W", "ignore",
                        os.path.join(HERE, "c17.py"), "--server", REPO, tier,
                        first], stdout=subprocess.PIPE, stderr=subprocess.PIPE,
                       env=env, text=True)
    if p.returncode != 0:
        raise RuntimeError("C17 server failed: %s" % p.stderr[-2000:])
    return [json.loads(l) for l in p.stdout.splitlines() if l.strip()]


def shards(tier):
    return [dict(first=n) for n, _ in call_table()]


def run_shard(params, tier, acc):
    ref = {r["probe"]: r for r in run_server("__ref__", tier)}
    rows = run_server(params["first"], tier)
    states = set()
    for r in rows:
        acc.evaluations += 1
        acc.nontrivial += 1
        acc.transitions += len(r["hist"]) + 1
        acc.traces += 1
        case = dict(hist=r["hist"], probe=r["probe"])
        if "crash" in r:
            acc.violation(dict(kind="harness_child_crash"), case, r["crash"])
            continue
        for s in r.get("states", []):
            states.add(s)
        for i, m in enumerate(r["mods"]):
            if m:
                acc.violation(dict(kind="call_problem", call=r["hist"][i]),
                              dict(hist=r["hist"][:i + 1], probe=r["probe"]),
                              "call %r in history %r: %s"
                              % (r["hist"][i], r["hist"][:i + 1], m),
                              size=len(r["hist"]))
        if r["probe_mods"]:
            acc.violation(dict(kind="arguments_modified", call=r["probe"]),
                          case, "call %r modified %r" % (r["probe"],
                                                         r["probe_mods"]),
                          size=len(r["hist"]))
        if r["memo"]:
            acc.violation(dict(kind="memo"), case, r["memo"])
        want = ref[r["probe"]]["result"]
        if r["result"] != want:
            acc.violation(
                dict(kind="history_dependent", probe=r["probe"]), case,
                "after %r the call %r returns\n   %s\nbut as the first call "
                "of a fresh interpreter it returns\n   %s"
                % (r["hist"], r["probe"], r["result"][:600], want[:600]),
                size=len(r["hist"]))
        acc.outcome("same" if r["result"] == want else "differs")
        acc.outcome("probe:" + r["probe"])
        if len(r["hist"]) == 2 and acc.evaluations % 301 == 0:
            acc.sample(dict(history=r["hist"], probe=r["probe"],
                            result=r["result"][:160]))
    acc.states += len(states)
    acc.sample(dict(first=params["first"], histories=len(rows),
                    hidden_states=len(states)))


def replay(case, acc):
    ref = {r["probe"]: r for r in run_server("__ref__", "thorough")}
    rows = run_server(case["hist"][0], "thorough"
                      if len(case["hist"]) > 2 else "quick")
    hit = False
    for r in rows:
        h = r["hist"]
        # an earlier call of the history is the subject: any row whose
        # history starts with it shows it
        if h[:len(case["hist"])] != case["hist"]:
            continue
        for i, m in enumerate(r["mods"][:len(case["hist"])]):
            if m:
                acc.violation(dict(kind="call_problem", call=h[i]), case,
                              str(m))
        if h == case["hist"] and r["probe"] == case["probe"]:
            if r["result"] != ref[r["probe"]]["result"]:
                acc.violation(dict(kind="history_dependent",
                                   probe=r["probe"]), case, "reproduced")
            if r["probe_mods"]:
                acc.violation(dict(kind="arguments_modified",
                                   call=r["probe"]), case, "reproduced")
            if r["memo"]:
                acc.violation(dict(kind="memo"), case, r["memo"])


if __name__ == "__main__":
    if sys.argv[1] == "--server":
        server(sys.argv[2], sys.argv[3], sys.argv[4])
