"""C20 - boot sends the complete image carrying this call's options only.

E2 over boot histories: every sequence of up to 3 boot calls from an alphabet
of option sets and images on the real boot.boot (and MachineController.boot)
with a capturing virtual socket and a frozen virtual clock.  Each call's
datagrams are decoded from the documented format and compared with a reference
packer written from sark.struct; options of earlier calls must not re-appear
(compared with the same call made in a fresh state)."""
import itertools
import os
import shutil
import struct
import tempfile

from mc.fakenet import Net, Patched
from mc.sim import SimMachine, parse_struct_file

PROPERTY = "C20"
LEVEL = "model_checking"
TECHNIQUE = ("explicit-state enumeration of boot-call histories (depth 3; "
             "thorough 4) on "
             "the real boot code with a capturing socket, reference struct "
             "packer and fresh-state differential oracle")
RULE = ("alphabet: no options, each board preset, arbitrary overrides "
        "(non-zero and zero values), options through an explicit sv_overrides "
        "dict, through MachineController.boot, dictionary refined by keywords "
        "of the same call, spare configuration words, caller's struct file "
        "(decimal offsets, other defaults), one datagram refused by the "
        "operating system; definitions returned by earlier boots re-read "
        "after later ones; images: bundled and synthetic "
        "{4,1020,1024,1028,2048,32764} bytes. Every sequence of <=3 calls; "
        "state = hidden option state (shared defaults) + call index; "
        "non-trivial: sequences of >=2 calls")
ASSUMPTIONS = [
    "boot protocol: big-endian header (version, op, arg1..3) + byte-swapped "
    "words; start=1 (arg3 = blocks-1), block=3 (arg1 low byte = number), "
    "end=5 (arg1 = 1); configuration area = image bytes 384..511",
    "images are whole numbers of words below 32 KiB (documented domain)",
    "unix_time / boot_sig / root_chip are set by every boot from the (frozen) "
    "clock",
]

SIZES = [4, 1020, 1024, 1028, 2048, 32764]
_tmp = None


def repo():
    from mc.runner import REPO as R
    return R


def tmpdir():
    global _tmp
    if _tmp is None:
        _tmp = tempfile.mkdtemp(prefix="rigverif_c20_")
        import atexit
        atexit.register(shutil.rmtree, _tmp, True)
    return _tmp


def image(size):
    if size == "bundled":
        return os.path.join(repo(), "rig", "boot", "scamp.boot")
    p = os.path.join(tmpdir(), "img%d.boot" % size)
    if not os.path.exists(p):
        with open(p, "wb") as f:
            f.write(bytes((i * 7 + 1) & 0xff for i in range(size)))
    return p


# alphabet of calls: (name, how, options, image)
def alphabet():
    return [
        ("plain", "kwargs", {}, 1028),
        ("spin3", "preset", "spin3_boot_options", 1028),
        ("spin5", "preset", "spin5_boot_options", 1028),
        ("spin1", "preset", "spin1_boot_options", 1024),
        ("clk", "kwargs", {"cpu_clk": 123, "led1": 0x55}, 1028),
        ("zero", "kwargs", {"soft_wdog": 0, "led0": 0}, 2048),
        # through the dictionary an sv field may share its name with a
        # parameter of boot() itself (boot_delay); values with the top bit of
        # their field set
        ("dict", "dict", {"mem_clk": 99, "hw_ver": 7, "boot_delay": 20,
                          "led1": 0x80000055, "p2p_dims": 0x8003,
                          "clk_div": 0x81}, 1028),
        ("mc_dict", "mc_dict", {"boot_delay": 33, "led0": 0xC0000001}, 1028),
        ("dict+kw", "dict+kw", {"link_en": 0x15, "p2p_sql": 9}, 1020),
        ("mc", "mc", {"hw_ver": 2, "num_buf": 3}, 1028),
        ("bundled", "kwargs", {"hw_ver": 4}, "bundled"),
        ("mc_wh", "mc_wh", {"hw_ver": 5, "led0": 1}, 1028),
        # overrides that EQUAL the struct file's default, followed by ones
        # that do not (dict order is the order given)
        # (boot_delay is a parameter of boot() itself, not an sv field name
        # that can be given as a keyword)
        ("same_first", "kwargs", {"cpu_clk": 200, "netinit_bc_wait": 33,
                                  "hw_ver": 6}, 1028),
        ("preset+", "kwargs", {"led0": 1, "hw_ver": 5, "cpu_clk": 150,
                               "num_buf": 7, "mem_clk": 77}, 1028),
        # (new entries go at the end: committed replays index this list)
        # a preset passed as the dictionary and refined by keywords of the
        # same call: the explicit keyword is the more specific statement of
        # this call's options (DESIGN section 4, C20)
        ("dict&kw", "dict&kw", {"dict": {"led0": 1, "hw_ver": 3,
                                         "cpu_clk": 140},
                                "kw": {"led0": 0x502, "cpu_clk": 160}}, 1028),
        # a struct file of the caller's (other defaults), directly and
        # through the controller
        ("custom", "custom", {"led1": 5, "cpu_clk": 190}, 1028),
        # spare words of the configuration area are options like any other
        ("pad", "dict", {"__PAD2": 0x1234, "__PAD3": 7, "hw_ver": 1}, 1028),
        # one datagram of the boot cannot be sent (start, a block, the end)
        ("fault0", "send_fault", {"fail_at": 0}, 2048),
        ("fault2", "send_fault", {"fail_at": 2}, 2048),
        ("fault3", "send_fault", {"fail_at": 3}, 2048),
        ("mc_custom", "mc_custom", {"mem_clk": 120}, 1028),
    ]


def scope(tier):
    return dict(depth=3 if tier == "quick" else 4,
                alphabet=[a[0] for a in alphabet()],
                image_sizes=SIZES + ["bundled"])


def shards(tier):
    n = len(alphabet())
    out = [dict(part="hist", first=i) for i in range(n)]
    out.append(dict(part="sizes"))
    return out


def custom_struct():
    """A caller-supplied struct file: the bundled one with other defaults
    for three system variables."""
    p = os.path.join(tmpdir(), "custom.struct")
    if not os.path.exists(p):
        src = open(os.path.join(repo(), "rig", "boot", "sark.struct"),
                   "rb").read().splitlines()
        out = []
        for line in src:
            t = line.split()
            if len(t) >= 5 and t[0] in (b"hw_ver", b"cpu_clk", b"led0"):
                new = {b"hw_ver": b"9", b"cpu_clk": b"175",
                       b"led0": b"0x00000777"}[t[0]]
                line = b" ".join([t[0], t[1], t[2], t[3], new])
            if len(t) >= 5 and t[1] != b"=" and not line.startswith(b"#"):
                # offsets written in decimal (the file format takes either)
                t = line.split()
                try:
                    line = b" ".join([t[0], t[1],
                                      str(int(t[2], 0)).encode()] + t[3:])
                except ValueError:
                    pass
            out.append(line)
        with open(p, "wb") as f:
            f.write(b"\n".join(out) + b"\n")
    return p


def ref_config(options, now, struct_path=None):
    """First 128 bytes of the packed sv defaults with `options` applied."""
    sv = parse_struct_file(struct_path or os.path.join(
        repo(), "rig", "boot", "sark.struct"))["sv"]
    data = bytearray(sv["size"])
    vals = {}
    for name, (fmt, off, default, length) in sv["fields"].items():
        vals[name] = default
    vals.update(options)
    vals.update(unix_time=now, boot_sig=now, root_chip=1)
    for name, (fmt, off, default, length) in sv["fields"].items():
        packed = struct.pack("<" + fmt, vals[name])
        data[off:off + len(packed)] = packed
    return bytes(data[:128]), vals


class Capture(object):
    def __init__(self, sim):
        self.sim = sim
        self.boot = []

    fail_at = None

    def __call__(self, sock, data, net):
        if sock.addr and sock.addr[1] == 54321:
            if self.fail_at is not None and len(self.boot) == self.fail_at:
                # the operating system refuses this one datagram (e.g. a
                # stale ICMP port-unreachable surfacing on a connected UDP
                # socket)
                self.fail_at = None
                raise ConnectionRefusedError(111, "injected send failure")
            self.boot.append((sock.addr[0], bytes(data)))
            return []
        return self.sim(sock, data, net)


def do_call(entry, host, cap, net, mods):
    """Perform one boot call; returns (datagrams, returned structs, options,
    exception)."""
    from rig.machine_control import boot as bootmod
    from rig.machine_control import machine_controller as mcm
    name, how, opts, size = entry
    img = image(size)
    n0 = len(cap.boot)
    given = None
    exc = None
    res = None
    try:
        if how == "preset":
            o = dict(getattr(bootmod, opts))
            res = bootmod.boot(host, scamp_binary=img, **o)
            opts = o
        elif how == "kwargs":
            res = bootmod.boot(host, scamp_binary=img, **opts)
        elif how == "dict":
            given = dict(opts)
            res = bootmod.boot(host, scamp_binary=img, sv_overrides=given)
        elif how == "dict+kw":
            items = sorted(opts.items())
            given = dict(items[:1])
            res = bootmod.boot(host, scamp_binary=img, sv_overrides=given,
                               **dict(items[1:]))
        elif how == "dict&kw":
            given = dict(opts["dict"])
            res = bootmod.boot(host, scamp_binary=img, sv_overrides=given,
                               **dict(opts["kw"]))
            if given != opts["dict"]:
                exc = AssertionError("caller's sv_overrides dict was "
                                     "modified: %r" % given)
            opts = dict(opts["dict"], **opts["kw"])
        elif how == "send_fault":
            cap.fail_at = n0 + opts["fail_at"]
            try:
                res = bootmod.boot(host, scamp_binary=img, hw_ver=3)
            finally:
                cap.fail_at = None
            opts = {"hw_ver": 3}
        elif how == "custom":
            res = bootmod.boot(host, scamp_binary=img,
                               sark_struct=custom_struct(), **opts)
        elif how == "mc_custom":
            mc = mcm.MachineController(host)
            mc.boot(only_if_needed=False, check_booted=True,
                    scamp_binary=img, sark_struct=custom_struct(), **opts)
            res = mc.structs
        elif how == "mc_dict":
            mc = mcm.MachineController(host)
            given = dict(opts)
            mc.boot(only_if_needed=False, check_booted=True,
                    scamp_binary=img, sv_overrides=given)
            res = mc.structs
        elif how in ("mc", "mc_wh"):
            mc = mcm.MachineController(host)
            if how == "mc":
                mc.boot(only_if_needed=False, check_booted=True,
                        scamp_binary=img, **opts)
            else:
                # the deprecated (ignored) width and height arguments
                import warnings
                with warnings.catch_warnings():
                    warnings.simplefilter("ignore")
                    mc.boot(8, 8, only_if_needed=False, check_booted=True,
                            scamp_binary=img, **opts)
            res = mc.structs
    except Exception as e:
        exc = e
    if given is not None and how in ("dict", "mc_dict") and \
            given != dict(opts):
        exc = exc or AssertionError("caller's sv_overrides dict was "
                                    "modified: %r" % given)
    if given is not None and how == "dict+kw" and given != dict(
            sorted(opts.items())[:1]):
        exc = exc or AssertionError("caller's sv_overrides dict was "
                                    "modified: %r" % given)
    return cap.boot[n0:], res, dict(opts), exc


def decode(datagrams):
    """-> (error or None, n_announced, image bytes)"""
    if not datagrams:
        return "no boot datagrams", None, None
    recs = []
    for host, d in datagrams:
        if len(d) < 18 or (len(d) - 18) % 4:
            return "datagram of %d bytes is not header + words" % len(d), \
                None, None
        ver, op, a1, a2, a3 = struct.unpack("!H4I", d[:18])
        words = struct.unpack("!%dI" % ((len(d) - 18) // 4), d[18:])
        body = struct.pack("<%dI" % len(words), *words)
        if ver != 1:
            return "protocol version %d" % ver, None, None
        recs.append((op, a1, a2, a3, body))
    if recs[0][0] != 1 or recs[0][4]:
        return "first datagram is not a start command", None, None
    if recs[-1][0] != 5 or recs[-1][1] != 1 or recs[-1][4]:
        return "last datagram is not an end command with arg1=1", None, None
    n = recs[0][3] + 1
    blocks = recs[1:-1]
    if len(blocks) != n:
        return "start announced %d blocks, %d were sent" % (n, len(blocks)), \
            n, None
    img = b""
    for i, (op, a1, a2, a3, body) in enumerate(blocks):
        if op != 3:
            return "datagram %d is op %d, expected a block" % (i + 1, op), \
                n, None
        if (a1 & 0xff) != i:
            return "block %d is numbered %d" % (i, a1 & 0xff), n, None
        if len(body) > 1024 or not body:
            return "block %d carries %d bytes" % (i, len(body)), n, None
        img += body
    return None, n, img


def judge_call(entry, dgrams, res, opts, exc, now, acc, case, fresh=None):
    name, how, _, size = entry

    def bad(kind, msg):
        acc.violation(dict(kind=kind, call=name), case, msg,
                      size=len(case.get("hist", [])) * 10)
    if exc is not None and how == "send_fault" and isinstance(exc, OSError):
        # the failure was reported to the caller: nothing claimed to be a
        # complete boot
        acc.outcome("send_failure_reported")
        return
    if exc is not None:
        bad("exception", "boot call %r raised %s: %s"
            % (name, type(exc).__name__, exc))
        return
    err, n, img = decode(dgrams)
    if err:
        bad("format", "boot call %r: %s" % (name, err))
        return
    orig = open(image(size), "rb").read()
    acc.outcome("blocks=%d options=%s" % (n, ",".join(sorted(opts)) or "-"))
    cfg, vals = ref_config(opts, now, custom_struct() if how in (
        "custom", "mc_custom") else None)
    want = bytearray(orig)
    want[384:512] = cfg
    want = bytes(want)
    if len(orig) < 512:
        # the splice extends a short image (bytearray slice assignment)
        pass
    if img != want:
        i = next((i for i in range(min(len(img), len(want)))
                  if img[i] != want[i]), min(len(img), len(want)))
        where = "configuration area" if 384 <= i < 512 else "image"
        fld = ""
        if 384 <= i < 512:
            off = i - 384
            sv = parse_struct_file(os.path.join(
                repo(), "rig", "boot", "sark.struct"))["sv"]["fields"]
            for fname, (fmt, o, d, l) in sv.items():
                if o <= off < o + struct.calcsize("<" + fmt):
                    fld = " (field %s)" % fname
        bad("image" if where == "image" else "options",
            "boot call %r with options %r: byte %d of the %s%s is %#04x, "
            "expected %#04x (sent %d bytes, image has %d)"
            % (name, opts, i, where, fld, img[i] if i < len(img) else -1,
               want[i] if i < len(want) else -1, len(img), len(want)))
        return
    if fresh is not None and [d for h, d in dgrams] != [d for h, d in fresh]:
        bad("history_dependent", "datagrams of boot call %r differ from the "
            "same call made first" % name)
    # returned structs describe the same values
    try:
        sv = res[b"sv"]
        for k, v in vals.items():
            if k.startswith("__PAD"):
                continue
            got = sv[k.encode()].default
            if got != v:
                bad("returned_structs", "returned struct says %s=%r, sent %r"
                    % (k, got, v))
                return
    except Exception as e:
        bad("returned_structs", "returned structs unusable: %r" % e)
        return
    return vals


def still_describes(name, res, vals):
    """Do the definitions returned by an EARLIER boot still describe what
    that boot sent?  -> None or a message."""
    try:
        sv = res[b"sv"]
        for k, v in vals.items():
            if k.startswith("__PAD"):
                continue
            got = sv[k.encode()].default
            if got != v:
                return ("the definitions returned by boot call %r now say "
                        "%s=%r, that boot sent %r" % (name, k, got, v))
    except Exception as e:
        return "definitions returned by boot call %r unusable: %r" % (name, e)


def run_history(hist, acc, fresh_cache):
    from rig.machine_control import boot as bootmod
    from rig.machine_control import scp_connection as sc
    from rig.machine_control import machine_controller as mcm
    sim = SimMachine(repo(), 1, 1)
    sim.full_sync = False
    cap = Capture(sim)
    net = Net(cap, budget=10 ** 6)
    net.now = 1500000000000
    alpha = alphabet()
    with Patched(net, [bootmod, sc, mcm]):
        sim.sync()
        earlier = []
        for i, a in enumerate(hist):
            entry = alpha[a]
            now = int(net.time())
            acc.evaluations += 1
            acc.transitions += 1
            dg, res, opts, exc = do_call(entry, "board%d" % i, cap, net, None)
            case = dict(hist=list(hist[:i + 1]))
            for oname, ores, ovals in earlier:
                msg = still_describes(oname, ores, ovals)
                if msg:
                    acc.violation(dict(kind="returned_structs_later",
                                       call=entry[0]), case,
                                  msg + " (after boot call %r)" % entry[0],
                                  size=len(case["hist"]) * 10)
            vals = judge_call(entry, dg, res, opts, exc, now, acc, case)
            if vals is not None:
                earlier.append((entry[0], res, vals))
            if any(h != "board%d" % i for h, d in dg):
                acc.violation(dict(kind="wrong_host", call=entry[0]), case,
                              "boot datagrams sent to %r"
                              % sorted(set(h for h, d in dg)))


def hidden_state():
    """Mutable defaults reachable from the boot function (C17-style)."""
    from rig.machine_control import boot as bootmod
    d = bootmod.boot.__defaults__
    return repr([x for x in d if isinstance(x, (dict, list, set))])


def part_hist(params, tier, acc):
    n = len(alphabet())
    states = set()
    first = params["first"]
    for depth in range(1, scope(tier)["depth"] + 1):
        for rest in itertools.product(range(n), repeat=depth - 1):
            hist = (first,) + rest
            # histories are prefix-closed: only the last call is new, but the
            # whole history must be replayed on fresh objects; to keep the
            # hidden state honest every history runs in this process after
            # resetting nothing - the hidden state *is* the subject
            reset_hidden()
            if depth >= 2:
                acc.nontrivial += 1
            run_history(hist, acc, None)
            states.add(hidden_state())
            if depth == 3 and sum(rest) % 11 == 0:
                acc.sample(dict(history=[alphabet()[a][0] for a in hist]))
    acc.states += len(states)
    acc.traces += acc.transitions
    acc.sample(dict(part="hist", first=alphabet()[first][0],
                    hidden_states=len(states)))


def reset_hidden():
    """Each history must start from the state a fresh interpreter has: the
    boot modules are re-executed (fresh default-argument objects, fresh
    module-level state)."""
    import importlib
    from rig.machine_control import struct_file
    from rig.machine_control import boot as bootmod
    importlib.reload(struct_file)
    importlib.reload(bootmod)


def part_sizes(params, tier, acc):
    for size in SIZES + ["bundled"]:
        for opts in ({}, {"hw_ver": 5, "led0": 1}):
            reset_hidden()
            acc.evaluations += 1
            acc.nontrivial += 1
            sim = SimMachine(repo(), 1, 1)
            cap = Capture(sim)
            net = Net(cap, budget=10 ** 6)
            net.now = 1400000000000
            from rig.machine_control import boot as bootmod
            with Patched(net, [bootmod]):
                entry = ("size%s" % size, "kwargs", opts, size)
                now = int(net.time())
                dg, res, o, exc = do_call(entry, "b", cap, net, None)
                judge_call(entry, dg, res, o, exc, now, acc,
                           dict(size=size, opts=opts))
    acc.sample(dict(part="sizes", sizes=SIZES))
    acc.states += 1
    acc.transitions += 1


def run_shard(params, tier, acc):
    globals()["part_" + params["part"]](params, tier, acc)


def replay(case, acc):
    if "hist" in case:
        reset_hidden()
        run_history(tuple(case["hist"]), acc, None)
    else:
        part_sizes({}, "quick", acc)


def selftest():
    cfg, vals = ref_config({"hw_ver": 3}, 7)
    assert len(cfg) == 128 and cfg[0x0a] == 3 and cfg[0x40] == 1
    assert struct.unpack_from("<I", cfg, 0x1c)[0] == 7
    assert struct.unpack_from("<H", cfg, 0x24)[0] == 200
