"""C04 - table minimisation never changes where any matched key is routed.

Bounded-exhaustive enumeration (E3) of small routing tables over a B-bit key
space in which *every* key can be tried, pushed through the real minimisers
(default-route removal, ordered covering, minimise_table, minimise_tables),
also re-applied to their own output, against first-match lookup."""
import itertools

PROPERTY = "C04"
LEVEL = "exploration"
TECHNIQUE = ("bounded-exhaustive enumeration of all small orthogonal and "
             "generality-ordered tables with every key of the key space "
             "looked up before and after each real minimiser")
RULE = ("families: (i) every orthogonal full-mask table over 3 key bits with 4 "
        "entry kinds per key, sorted and reversed; (ii) subsets of 4-bit keys "
        "x 2 routes; (iii) every generality-ordered list of <=3 (thorough "
        "<=4) entries over all 27 ternary patterns of 3 bits x 3 entry kinds; "
        "(iv) the empty table; (v) two-call histories sharing a process; each "
        "x targets {None,0,1,len-1,len,len+1} x {remove_default_routes, "
        "ordered_covering.minimise, minimise_table, minimise_tables} and "
        "re-minimisation of every result. Non-trivial: table has >=2 entries; "
        "tables are distinct by construction")
ASSUMPTIONS = [
    "keys outside the low B bits are not looked up (all entries force the "
    "upper 32-B bits to zero, merges cannot free them)",
    "first-match lookup in /verif is the reference semantics of a table",
]

B3 = 3


def scope(tier):
    return dict(i="4^8 tables x 2 orders", ii_max_keys=4 if tier == "quick"
                else 6, iii_max_entries=3 if tier == "quick" else 4,
                targets="None,0,1,len-1,len,len+1",
                remin="every result re-minimised by both minimisers")


def shards(tier):
    out = [dict(fam="i", hi=h) for h in range(64)]
    out += [dict(fam="ii", first=k) for k in range(16)]
    for p in range(27):
        for kd in range(3):
            out.append(dict(fam="iii", first=[p, kd]))
    out.append(dict(fam="iv"))
    out.append(dict(fam="v"))
    out += [dict(fam="vi", k=k) for k in range(4)]
    out += [dict(fam="vii", k=k) for k in range(16)]
    out += [dict(fam="viii", k=k) for k in range(4)]
    out += [dict(fam="ix", k=k) for k in range(8)]
    out += [dict(fam="x", k=k) for k in range(4)]
    out += [dict(fam="xi", k=k) for k in range(8)]
    return out


# --------------------------------------------------------------------------
# serialisable entry: [route_list, key, mask, sources_list]   (ints / None)
def to_rte(e):
    from rig.routing_table import RoutingTableEntry, Routes
    return RoutingTableEntry(
        {Routes(r) for r in e[0]}, e[1], e[2],
        {None if s is None else Routes(s) for s in e[3]})


def from_rte(e):
    return [sorted(int(r) for r in e.route), e.key, e.mask,
            sorted(((None if s is None else int(s)) for s in e.sources),
                   key=lambda s: -1 if s is None else s)]


N, S, E, W, CORE1 = 2, 5, 0, 3, 7
KINDS = {
    "dflt": ([N], [S]),          # straight through: default-routable
    "unk": ([N], [None]),
    "core": ([CORE1], [S]),
    "west": ([N], [W]),          # link -> link but not straight through
}


def mask_of(bits, nbits):
    """Upper bits always matched (must be zero)."""
    return (0xffffffff << nbits) & 0xffffffff


def lookup(table, key):
    """First-match semantics on serialisable entries."""
    for e in table:
        if key & e[2] == e[1]:
            return e
    return None


def defaultable(e):
    r, s = e[0], e[3]
    return (len(r) == 1 and len(s) == 1 and s[0] is not None and
            r[0] < 6 and s[0] < 6 and (s[0] + 3) % 6 == r[0])


def compare(orig, new, nbits):
    """None if `new` routes every key matched by `orig` identically, else a
    message."""
    for key in range(1 << nbits):
        o = lookup(orig, key)
        if o is None:
            continue
        n = lookup(new, key)
        if n is None:
            if not defaultable(o):
                return ("key %s: originally %s, no entry matches any more and "
                        "default routing cannot reproduce it"
                        % (bin(key), fmt(o)))
            continue
        if sorted(n[0]) != sorted(o[0]):
            return ("key %s: originally routed by %s, now by %s"
                    % (bin(key), fmt(o), fmt(n)))
        if not set(o[3]) <= set(n[3]):
            return ("key %s: entry %s lost source directions of original %s"
                    % (bin(key), fmt(n), fmt(o)))
    return None


def fmt(e):
    return "(key=%#x mask=%#x route=%r sources=%r)" % (e[1], e[2], e[0], e[3])


FUNCS = ("rde", "oc", "mt")


def call(fname, table, target):
    """-> ('ok', table) | ('failed', final_length) | ('exc', text)"""
    from rig.routing_table import MinimisationFailedError
    from rig.routing_table import remove_default_routes as rde
    from rig.routing_table import ordered_covering as oc
    from rig.routing_table.minimise import minimise_table
    rt = [to_rte(e) for e in table]
    snap = [from_rte(e) for e in rt]
    try:
        if fname == "rde":
            out = rde.minimise(rt, target)
        elif fname == "oc":
            out = oc.minimise(rt, target)
        elif fname == "rde_na":
            # documented for tables without aliased (intersecting) entries
            out = rde.minimise(rt, target, check_for_aliases=False)
        elif fname == "oc_nr":
            # never raises: returns what it reached
            out, _aliases = oc.ordered_covering(rt, target, no_raise=True)
        else:
            out = minimise_table(rt, target)
        res = ("ok", [from_rte(e) for e in out])
    except MinimisationFailedError as e:
        res = ("failed", e.final_length, e.target_length)
    except Exception as e:
        res = ("exc", "%s: %s" % (type(e).__name__, e))
    if [from_rte(e) for e in rt] != snap:
        res = ("exc", "input table was modified")
    return res


def targets_for(n, tier):
    ts = [None, 0, 1, n - 1, n, n + 1]
    out = []
    for t in ts:
        if (t is None or t >= 0) and t not in out:
            out.append(t)
    return out


def judge_table(table, nbits, tier, acc, fam, targets=None, remin=True,
                funcs=FUNCS):
    n = len(table)
    best = {}
    for fname in funcs:
        for t in (targets if targets is not None else targets_for(n, tier)):
            acc.evaluations += 1
            case = dict(fam=fam, table=table, nbits=nbits, fn=fname, target=t)
            r = call(fname, table, t)
            size = n * 10 + (0 if t is None else 1)
            if r[0] == "exc":
                acc.violation(dict(kind="exception", fn=fname,
                                   exc=r[1].split(":")[0],
                                   empty=(n == 0)), case,
                              "%s(table of %d, target=%r) raised %s"
                              % (fname, n, t, r[1]), size=size)
                continue
            if r[0] == "failed":
                acc.outcome("failed")
                if t is None or fname == "oc_nr":
                    acc.violation(dict(kind="failed_without_target",
                                       fn=fname), case,
                                  "MinimisationFailedError with target None",
                                  size=size)
                    continue
                if fname not in best:
                    b = call(fname, table, None)
                    best[fname] = len(b[1]) if b[0] == "ok" else None
                bl = best[fname]
                if r[2] != t or r[1] <= t or (bl is not None and r[1] != bl):
                    acc.violation(
                        dict(kind="failed_error_wrong", fn=fname), case,
                        "%s target %r failed reporting final_length=%r "
                        "target_length=%r; unconstrained minimisation reaches "
                        "%r" % (fname, t, r[1], r[2], bl), size=size)
                continue
            out = r[1]
            acc.outcome("ok_shrunk" if len(out) < n else "ok_same")
            if len(out) > n:
                acc.violation(dict(kind="longer", fn=fname), case,
                              "result has %d entries, input %d"
                              % (len(out), n), size=size)
            if t is not None and len(out) > t and fname != "oc_nr":
                acc.violation(dict(kind="target_missed", fn=fname), case,
                              "returned %d entries for target %d"
                              % (len(out), t), size=size)
            msg = compare(table, out, nbits)
            if msg:
                acc.violation(dict(kind="routing_changed", fn=fname), case,
                              "%s(target=%r): %s\n input:  %s\n output: %s"
                              % (fname, t, msg, [fmt(e) for e in table],
                                 [fmt(e) for e in out]), size=size)
                continue
            if remin and t is None and fname != "mt" and out != table:
                # a minimised table is a legal generality-ordered input:
                # start from a non-initial state
                for f2 in ("rde", "oc"):
                    acc.evaluations += 1
                    r2 = call(f2, out, None)
                    c2 = dict(case, then=f2)
                    if r2[0] != "ok":
                        acc.violation(dict(kind="remin_" + r2[0], fn=f2), c2,
                                      "re-minimising %s's output with %s: %r"
                                      % (fname, f2, r2[1:]), size=size + 1)
                        continue
                    # the intermediate table is the input of this call: only
                    # keys *it* matches are constrained (entries already
                    # replaced by default routing may legally be covered)
                    msg = compare(out, r2[1], nbits)
                    if msg:
                        acc.violation(
                            dict(kind="routing_changed_remin", fn=f2), c2,
                            "%s then %s: %s\n input: %s\n mid: %s\n out: %s"
                            % (fname, f2, msg, [fmt(e) for e in table],
                               [fmt(e) for e in out],
                               [fmt(e) for e in r2[1]]), size=size + 1)


# --------------------------------------------------------------------------
def fam_i(hi, tier, acc):
    kinds = [None, "dflt", "unk", "core"]
    m = mask_of(0, B3) | 0x7
    # hi fixes the kinds of keys 5,6,7 (4^3 = 64 shards)
    top = [(hi >> (2 * i)) & 3 for i in range(3)]
    for low in itertools.product(range(4), repeat=5):
        ks = list(low) + top
        table = [[KINDS[kinds[k]][0], key, m, KINDS[kinds[k]][1]]
                 for key, k in enumerate(ks) if k]
        if len(table) >= 2:
            acc.nontrivial += 1
        tg = None if tier != "quick" else [None, max(0, len(table) - 1)]
        judge_table(table, B3, tier, acc, "i", targets=tg,
                    remin=(tier != "quick"))
        if len(table) >= 2:
            acc.nontrivial += 1
            judge_table(table[::-1], B3, tier, acc, "i", targets=[None],
                        remin=False)
    acc.sample(dict(fam="i", example=table))


def fam_ii(first, tier, acc):
    maxk = scope(tier)["ii_max_keys"]
    m = 0xffffffff
    rest = range(first + 1, 16)
    for k in range(0, maxk):
        for others in itertools.combinations(rest, k):
            keys = (first,) + others
            for routes in itertools.product((0, 1), repeat=len(keys)):
                table = [[[N] if r == 0 else [CORE1], key, m,
                          [S] if (key ^ r) & 1 else [None]]
                         for key, r in zip(keys, routes)]
                if len(table) >= 2:
                    acc.nontrivial += 1
                judge_table(table, 4, tier, acc, "ii",
                            targets=[None, len(table) - 1]
                            if tier == "quick" else None,
                            remin=(tier != "quick"))
    acc.sample(dict(fam="ii", example=table))


def ternary_patterns(nbits):
    out = []
    for digits in itertools.product("01X", repeat=nbits):
        key = mask = 0
        for d in digits:
            key <<= 1
            mask <<= 1
            if d != "X":
                mask |= 1
                key |= int(d)
        out.append(("".join(digits), key, mask | mask_of(0, nbits)))
    return out


III_KINDS = ["dflt", "core", "west"]


def fam_iii(first, tier, acc):
    pats = ternary_patterns(B3)
    maxn = scope(tier)["iii_max_entries"]
    variants = [(p, kd) for p in range(27) for kd in range(3)]

    def gen(e):
        return pats[e[0]][0].count("X")

    def mk(e):
        r, s = KINDS[III_KINDS[e[1]]]
        return [r, pats[e[0]][1], pats[e[0]][2], s]
    f = tuple(first)
    for n in range(1, maxn + 1):
        for rest in itertools.product(variants, repeat=n - 1):
            es = (f,) + rest
            if any(gen(es[i]) > gen(es[i + 1]) for i in range(n - 1)):
                continue
            table = [mk(e) for e in es]
            if n >= 2:
                acc.nontrivial += 1
            judge_table(table, B3, tier, acc, "iii",
                        targets=[None, n - 1] if (tier == "quick" or n >= 4)
                        else None, remin=(n <= 3))
            if n >= 2:
                # default-route removal alone: any ordered table at all
                acc.evaluations += 1
                rev = table[::-1]
                r = call("rde", rev, None)
                case = dict(fam="iii", table=rev, nbits=B3, fn="rde",
                            target=None)
                if r[0] != "ok":
                    acc.violation(dict(kind="exception", fn="rde",
                                       exc=str(r[1]).split(":")[0],
                                       empty=False), case,
                                  "rde on arbitrary ordered table: %r" % (r,),
                                  size=n * 10)
                else:
                    msg = compare(rev, r[1], B3)
                    if msg:
                        acc.violation(dict(kind="routing_changed", fn="rde"),
                                      case, "rde (arbitrary order): " + msg,
                                      size=n * 10)
    acc.sample(dict(fam="iii", example=table))


def fam_iv(tier, acc):
    acc.nontrivial += 1
    judge_table([], B3, tier, acc, "iv", targets=[None, 0, 1])
    from rig.routing_table.minimise import minimise_tables
    # minimise_tables: drops only empty tables, tags the failing chip
    from rig.routing_table import MinimisationFailedError
    m = 0xffffffff
    t_small = [[[N], 0, m, [S]]]                  # all default-routable
    t_two = [[[CORE1], 0, m, [S]], [[CORE1], 1, m, [S]]]   # merge to one
    t_stuck = [[[CORE1], 0, m, [S]], [[N], 1, m, [W]]]     # cannot shrink
    tables = {(0, 0): t_small, (1, 0): t_two, (0, 1): t_stuck, (1, 1): []}
    for target in (None, 2, 1, 0, {(0, 1): 2, (0, 0): 0, (1, 0): 1,
                                   (1, 1): 0}):
        acc.evaluations += 1
        acc.nontrivial += 1
        case = dict(fam="iv", tables=[[list(k), v] for k, v in tables.items()],
                    target=target if not isinstance(target, dict) else
                    [[list(k), v] for k, v in target.items()])
        judge_tables(case, acc)
    acc.sample(dict(fam="iv", tables=list(map(list, tables))))


def judge_tables(case, acc):
    from rig.routing_table.minimise import minimise_tables
    from rig.routing_table import MinimisationFailedError
    tables = {tuple(k): v for k, v in case["tables"]}
    target = case["target"]
    if isinstance(target, list):
        target = {tuple(k): v for k, v in target}
    rts = {k: [to_rte(e) for e in v] for k, v in tables.items()}
    try:
        out = minimise_tables(rts, target)
    except MinimisationFailedError as e:
        # some chip must really be stuck above its target
        chip = getattr(e, "chip", None)
        t = target.get(chip) if isinstance(target, dict) else target
        ok = chip in tables and t is not None
        if ok:
            b = min(len(call(f, tables[chip], None)[1]) for f in ("rde", "oc"))
            ok = b > t and e.final_length == min(b, len(tables[chip]))
        if not ok:
            acc.violation(dict(kind="tables_failed_wrong"), case,
                          "minimise_tables raised %r (chip %r) for target %r"
                          % (e, chip, target))
        return
    except Exception as e:
        acc.violation(dict(kind="exception", fn="minimise_tables",
                           exc=type(e).__name__, empty=False), case,
                      "minimise_tables raised %s: %s" % (type(e).__name__, e))
        return
    for chip, tab in tables.items():
        new = [from_rte(e) for e in out.get(chip, [])]
        if chip in out and not out[chip]:
            acc.violation(dict(kind="tables_empty_kept"), case,
                          "empty table kept for chip %r" % (chip,))
        msg = compare(tab, new, 4)
        t = target.get(chip) if isinstance(target, dict) else target
        if msg or (t is not None and len(new) > t):
            acc.violation(dict(kind="tables_routing_changed"), case,
                          "minimise_tables chip %r target %r: %s (len %d)"
                          % (chip, t, msg, len(new)))
    if set(out) - set(tables):
        acc.violation(dict(kind="tables_extra_chip"), case, "extra chips")


def fam_v(tier, acc):
    """Two-call histories: does an earlier minimisation influence a later one
    (shared alias dictionary, ...)?  Every ordered pair of tables from a small
    family, second result must equal the result in a fresh state and keep the
    routing."""
    m = 0xffffffff
    keys = range(4)
    fam = []
    for n in (2, 3):
        for ks in itertools.combinations(range(16), n):
            if max(ks) - min(ks) > 9:
                continue
            fam.append([[[N], k, m, [W]] for k in ks])
    # tables with a general entry below mergeable ones
    X = [[[N], 0, mask_of(0, 4), [W]]]
    extra = []
    for ks in itertools.combinations(range(8), 2):
        extra.append([[[E], k, m, [W]] for k in ks] + X)
    fam = fam[::7] + extra
    solo = {}
    for i, t in enumerate(fam):
        solo[i] = call("oc", t, None)
    for i, a in enumerate(fam):
        for j, b in enumerate(fam):
            acc.evaluations += 1
            acc.nontrivial += 1
            call("oc", a, None)
            r = call("oc", b, None)
            case = dict(fam="v", first=a, table=b, nbits=4, fn="oc",
                        target=None)
            if r != solo[j]:
                acc.violation(dict(kind="history_dependent", fn="oc"), case,
                              "ordered covering of %s gives %r after "
                              "minimising %s first, %r on its own"
                              % ([fmt(e) for e in b], r,
                                 [fmt(e) for e in a], solo[j]),
                              size=len(a) + len(b))
            elif r[0] == "ok":
                msg = compare(b, r[1], 4)
                if msg:
                    acc.violation(dict(kind="routing_changed", fn="oc"), case,
                                  msg, size=len(a) + len(b))
    acc.sample(dict(fam="v", tables=len(fam), pairs=len(fam) ** 2))


def fam_vi(k, tier, acc):
    """minimise_tables over several chips whose tables have the same keys,
    masks and routes but different source directions (straight through /
    turning / unknown): every chip is judged against its own table, in both
    insertion orders of the dict."""
    m = 0xffffffff
    srcs = (S, W, None)
    i = -1
    for n in (1, 2, 3):
        for ks in itertools.combinations(range(4), n):
            for s1 in itertools.product(srcs, repeat=n):
                for s2 in itertools.product(srcs, repeat=n):
                    if s1 == s2:
                        continue
                    i += 1
                    if i % 4 != k:
                        continue
                    ta = [[[N], key, m, [s]] for key, s in zip(ks, s1)]
                    tb = [[[N], key, m, [s]] for key, s in zip(ks, s2)]
                    for target in (None, 0, 1):
                        acc.evaluations += 1
                        acc.nontrivial += 1
                        judge_tables(dict(
                            fam="vi", tables=[[[0, 0], ta], [[1, 0], tb]],
                            target=target), acc)
    acc.sample(dict(fam="vi", k=k))


def fam_vii(k, tier, acc):
    """Merge group with blockers (4-bit keys): three exact keys {0, a, b}
    with one route - every triple up to the XOR symmetry of the key space -
    below them two ternary entries (>= 1 X) with other routes, in generality
    order (both orders on ties).  The merge of the group must be pruned /
    abandoned against the blockers: the up- and down-check machinery of
    ordered covering is exercised with a candidate whose insertion point
    moves."""
    nb = 4
    pats = []
    for t in itertools.product((0, 1, 2), repeat=nb):
        if 2 not in t:
            continue
        key = sum((1 << i) for i, v in enumerate(t) if v == 1)
        mask = sum((1 << i) for i, v in enumerate(t) if v != 2)
        pats.append((t.count(2), key, mask | mask_of(0, nb)))
    pats.sort()
    i = -1
    m = 0xffffffff
    for a, b in itertools.combinations(range(1, 16), 2):
        group = [[[N], kk, m, [W]] for kk in (0, a, b)]
        for p1, p2 in itertools.combinations(range(len(pats)), 2):
            i += 1
            if i % 16 != k:
                continue
            orders = [(p1, p2)]
            if pats[p1][0] == pats[p2][0]:
                orders.append((p2, p1))
            for (q1, q2) in orders:
                for r1, r2 in ((CORE1, E), (CORE1, CORE1)):
                    table = group + [
                        [[r1], pats[q1][1], pats[q1][2], [W]],
                        [[r2], pats[q2][1], pats[q2][2], [W]]]
                    acc.evaluations += 1
                    acc.nontrivial += 1
                    for fn in ("oc",):
                        r = call(fn, table, None)
                        case = dict(fam="vii", table=table, nbits=nb, fn=fn,
                                    target=None)
                        if r[0] == "exc":
                            acc.violation(dict(kind="exception", fn=fn,
                                               empty=False), case, r[1],
                                          size=5)
                        elif r[0] == "ok":
                            msg = compare(table, r[1], nb)
                            if msg:
                                acc.violation(dict(kind="routing_changed",
                                                   fn=fn), case,
                                              "%s of %s: %s" % (
                                                  fn, [fmt(e) for e in table],
                                                  msg), size=5)
                            elif len(r[1]) > len(table):
                                acc.violation(dict(kind="grew", fn=fn), case,
                                              "result longer than input",
                                              size=5)
    acc.sample(dict(fam="vii", k=k, blockers=len(pats)))


def fam_viii(k, tier, acc):
    """Every target length: orthogonal full-mask tables over 3 key bits with
    at most 4 entries (4 entry kinds) x every target 0..len+1 x every
    function - the failure report and the target test at every position of
    the removable entries."""
    kinds = [None, "dflt", "unk", "core"]
    m = mask_of(0, B3) | 0x7
    i = -1
    for ks in itertools.product(range(4), repeat=8):
        if sum(1 for x in ks if x) > 4 or not any(ks):
            continue
        i += 1
        if i % 4 != k:
            continue
        table = [[KINDS[kinds[x]][0], key, m, KINDS[kinds[x]][1]]
                 for key, x in enumerate(ks) if x]
        acc.nontrivial += 1
        judge_table(table, B3, tier, acc, "viii",
                    targets=[None] + list(range(len(table) + 2)),
                    remin=False,
                    funcs=("rde", "oc", "mt", "rde_na", "oc_nr"))
    acc.sample(dict(fam="viii", k=k))


def fam_ix(k, tier, acc):
    """Total functions on 4-bit keys: one half-space entry (XX1X -> N) below
    exact entries for the other eight keys with every assignment of three
    routes (3^8); the same with two exact keys of other routes sitting above
    the half-space entry inside it.  Several route groups compete for merges
    and every merge has the general entry below it."""
    m = 0xffffffff
    R = [[N], [E], [CORE1]]
    keys0 = [key for key in range(16) if not key & 2]
    general = [R[0], 2, mask_of(0, 4) | 2, [W]]
    i = -1
    for routes in itertools.product(range(3), repeat=8):
        i += 1
        if i % 8 != k:
            continue
        base = [[R[r], key, m, [W]] for key, r in zip(keys0, routes)]
        for inside in ([], [[R[1], 3, m, [W]], [R[2], 6, m, [W]]]):
            table = base + inside + [general]
            acc.evaluations += 1
            acc.nontrivial += 1
            case = dict(fam="ix", table=table, nbits=4, fn="oc", target=None)
            r = call("oc", table, None)
            if r[0] == "exc":
                acc.violation(dict(kind="exception", fn="oc", empty=False),
                              case, r[1], size=len(table))
            elif r[0] == "ok":
                msg = compare(table, r[1], 4)
                if msg:
                    acc.violation(dict(kind="routing_changed", fn="oc"), case,
                                  "oc of %s: %s" % ([fmt(e) for e in table],
                                                    msg), size=len(table))
                elif len(r[1]) > len(table):
                    acc.violation(dict(kind="grew", fn="oc"), case,
                                  "result longer than input", size=len(table))
    acc.sample(dict(fam="ix", k=k))


def fam_x(k, tier, acc):
    """Source/route shapes of single entries: orthogonal tables of three
    exact 3-bit keys whose entries are drawn from every 'almost default'
    shape - straight through on each of the six links, a CORE source whose
    number is congruent to the opposite link (monitor -> West, core 1 ->
    South-West, core 3 -> East, core 17), two sources, a link plus an unknown
    source, a route to a link and a core, a straight-through core route."""
    shapes = []
    for l in range(6):
        shapes.append(([l], [(l + 3) % 6]))             # default-routable
    for c in (0, 1, 3, 17):
        shapes.append(([(6 + c + 3) % 6], [6 + c]))     # source is a core
    shapes += [([N], [S, W]), ([N], [S, None]), ([N, CORE1], [S]),
               ([CORE1], [6 + 4]), ([N], [N]), ([S], [None])]
    m = mask_of(0, B3) | 0x7
    i = -1
    reps = 3 if tier != "quick" else 2
    for ks in itertools.product(range(len(shapes)), repeat=reps):
        i += 1
        if i % 4 != k:
            continue
        table = [[list(shapes[x][0]), key, m, list(shapes[x][1])]
                 for key, x in enumerate(ks)]
        # a fully general last entry with a route of its own: removal of an
        # entry above it changes the routing unless default routing
        # reproduces it
        for tail in ([], [[[E], 0, mask_of(0, B3), [W]]]):
            acc.nontrivial += 1
            judge_table(table + tail, B3, tier, acc, "x", remin=False,
                        funcs=FUNCS + ("oc_nr",) +
                        (() if tail else ("rde_na",)))
    acc.sample(dict(fam="x", k=k, shapes=len(shapes)))


def fam_xi(k, tier, acc):
    """Partial merges under a target: a group of three or four exact 4-bit
    keys with one route, one ternary entry (>= 1 X) with another route below
    them, EVERY target from 1 to the table length - the minimiser may stop
    merging early, and whatever it stops with must still route every key as
    before."""
    nb = 4
    pats = []
    for t in itertools.product((0, 1, 2), repeat=nb):
        if 2 not in t:
            continue
        key = sum((1 << i) for i, v in enumerate(t) if v == 1)
        mask = sum((1 << i) for i, v in enumerate(t) if v != 2)
        pats.append((key, mask | mask_of(0, nb)))
    m = 0xffffffff
    i = -1
    groups = [(0,) + c for c in itertools.combinations(range(1, 16), 2)]
    groups += [(0,) + c for c in itertools.combinations(range(1, 16), 3)]
    for g in groups:
        i += 1
        if i % 8 != k:
            continue
        group = [[[N], kk, m, [W]] for kk in g]
        for (pk, pm) in pats:
            table = group + [[[S], pk, pm, [W]]]
            acc.nontrivial += 1
            for fn in ("oc", "mt"):
                for t in range(1, len(table) + 1):
                    acc.evaluations += 1
                    r = call(fn, table, t)
                    case = dict(fam="xi", table=table, nbits=nb, fn=fn,
                                target=t)
                    if r[0] == "exc":
                        acc.violation(dict(kind="exception", fn=fn,
                                           empty=False), case, r[1], size=5)
                    elif r[0] == "ok":
                        msg = compare(table, r[1], nb)
                        if msg:
                            acc.violation(
                                dict(kind="routing_changed", fn=fn), case,
                                "%s(target %d) of %s: %s"
                                % (fn, t, [fmt(e) for e in table], msg),
                                size=5)
                        elif len(r[1]) > t:
                            acc.violation(dict(kind="target_missed", fn=fn),
                                          case, "returned %d entries for "
                                          "target %d" % (len(r[1]), t),
                                          size=5)
    acc.sample(dict(fam="xi", k=k, groups=len(groups), blockers=len(pats)))


def run_shard(params, tier, acc):
    f = params["fam"]
    if f == "x":
        fam_x(params["k"], tier, acc)
        return
    if f == "xi":
        fam_xi(params["k"], tier, acc)
        return
    if f == "ix":
        fam_ix(params["k"], tier, acc)
        return
    if f == "viii":
        fam_viii(params["k"], tier, acc)
        return
    if f == "vii":
        fam_vii(params["k"], tier, acc)
        return
    if f == "vi":
        fam_vi(params["k"], tier, acc)
        return
    if f == "i":
        fam_i(params["hi"], tier, acc)
    elif f == "ii":
        fam_ii(params["first"], tier, acc)
    elif f == "iii":
        fam_iii(params["first"], tier, acc)
    elif f == "iv":
        fam_iv(tier, acc)
    else:
        fam_v(tier, acc)


def replay(case, acc):
    if "tables" in case:
        judge_tables(case, acc)
        return
    if case.get("fam") == "v":
        call("oc", case["first"], None)
        r = call("oc", case["table"], None)
        # fresh-state result is obtained in a subprocess-free way: the alias
        # leak only matters when the earlier call ran in this process, so
        # compare with the semantics oracle and with a run before `first`
        msg = compare(case["table"], r[1], case["nbits"]) if r[0] == "ok" \
            else repr(r)
        if msg:
            acc.violation(dict(kind="routing_changed", fn="oc"), case, msg)
        fam_v("quick", acc)
        return
    t = case["target"]
    sub = type(acc)()
    judge_table(case["table"], case["nbits"], "thorough", sub, case["fam"],
                targets=[t], remin=True,
                funcs=FUNCS if case["fn"] in FUNCS else FUNCS + (case["fn"],))
    for k, v in sub.violations.items():
        if v["sig"].get("fn") in (case["fn"], case.get("then")):
            acc.violations[k] = v


def selftest():
    m = 0xffffffff
    t = [[[N], 0, m, [S]], [[CORE1], 0, mask_of(0, 3) | 6, [S]]]
    assert lookup(t, 0) is t[0] and lookup(t, 1) is t[1] and \
        lookup(t, 2) is None
    assert defaultable(t[0]) and not defaultable(t[1])
    # key 0 would now hit the core entry: must be reported
    assert compare(t, t[1:], 3) is not None
    assert compare(t, [], 3) is not None
    assert compare(t[:1], [], 3) is None      # default routing reproduces it
    assert len(ternary_patterns(3)) == 27
