"""C18 - commands go to the chip, core and application the caller named.

E2: breadth-first search over context histories (enter a context with any of
nine argument frames, enter an application block, leave normally, leave by
exception, update the current context) on a real MachineController; in every
distinct reached state every method wrapped by use_contextual_arguments is
called in several argument-passing forms.  A twin controller (fresh, no
contexts, every contextual argument passed explicitly with the value a stack-
of-dicts reference model resolves) receives the same calls on a twin simulated
machine: the two datagram traces must be identical.  Separate parts check the
wire fields directly, connection selection and the board controller."""
import inspect
import itertools
import os
import shutil
import struct
import tempfile

from mc.fakenet import Net, Patched
from mc.sim import SimMachine

PROPERTY = "C18"
LEVEL = "model_checking"
TECHNIQUE = ("explicit-state breadth-first search over context-block "
             "histories on the real controllers with a stack-of-dicts "
             "reference model and a differential twin-controller datagram "
             "trace oracle")
RULE = ("operations: enter context (9 frames), enter application (2 ids), "
        "leave normally, leave by exception, update current context (3 "
        "frames); depth <=3 (thorough 4); in every distinct state (canonical "
        "= model stack) every wrapped method x call forms {none, all keyword, "
        "all positional, each argument alone by keyword, falsy explicit "
        "values}. Non-trivial: state with non-empty stack. Distinct states "
        "counted by the search")
ASSUMPTIONS = [
    "a table in the harness supplies the non-contextual arguments of each "
    "wrapped method; wrapped methods missing from the table are reported in "
    "the evidence as a coverage gap",
    "the twin simulated machines evolve identically when given identical "
    "command sequences",
]

FRAMES = [{}, {"x": 1}, {"x": 2}, {"y": 1}, {"x": 1, "y": 2}, {"p": 1},
          {"x": 2, "p": 2}, {"app_id": 1}, {"app_id": 2}]
UPDATES = [{"x": 3}, {"app_id": 5}, {"y": 0, "p": 3}]
CTX_NAMES = ("x", "y", "p", "app_id")
EXPLICIT = {"x": 3, "y": 4, "p": 3, "app_id": 7}
FALSY = {"x": 0, "y": 0, "p": 0, "app_id": 0}
_tmp = None


def repo():
    from mc.runner import REPO as R
    return R


def scope(tier):
    return dict(depth=3 if tier == "quick" else 4, frames=FRAMES,
                updates=UPDATES)


def aplx():
    global _tmp
    if _tmp is None:
        _tmp = tempfile.mkdtemp(prefix="rigverif_c18_")
        import atexit
        atexit.register(shutil.rmtree, _tmp, True)
        with open(os.path.join(_tmp, "a.aplx"), "wb") as f:
            f.write(bytes(range(32)))
    return os.path.join(_tmp, "a.aplx")


def method_table():
    """name -> dict of non-contextual argument values (by name) or 'star'
    positional arguments."""
    from rig.routing_table import RoutingTableEntry, Routes
    rte = [RoutingTableEntry({Routes.east}, 0x10, 0xffffffff)]
    A = 0x60001000
    return {
        "send_scp": dict(star=[0]),
        "get_software_version": dict(processor=0),
        "get_ip_address": {},
        "write": dict(address=A, data=b"abcdefg"),
        "read": dict(address=A, length_bytes=9),
        "write_across_link": dict(address=A, data=b"abcd", link=0),
        "read_across_link": dict(address=A, length_bytes=8, link=2),
        "read_struct_field": dict(struct_name="sv", field_name="p2p_addr"),
        "write_struct_field": dict(struct_name="sv", field_name="led0",
                                   values=5),
        "read_vcpu_struct_field": dict(field_name="cpu_state"),
        "write_vcpu_struct_field": dict(field_name="user0", value=9),
        "get_processor_status": {},
        "get_iobuf": {},
        "get_iobuf_bytes": {},
        "get_router_diagnostics": {},
        "iptag_set": dict(iptag=1, addr="1.2.3.4", port=99),
        "iptag_get": dict(iptag=1),
        "iptag_clear": dict(iptag=1),
        "set_led": dict(led=1, action=True),
        "fill": dict(address=A, data=0xAB, size=8),
        "sdram_alloc": dict(size=16, tag=0, clear=False),
        "sdram_alloc_as_filelike": dict(size=8, tag=0, clear=True),
        "sdram_free": dict(ptr=0x60240000),
        "flood_fill_aplx": dict(star=[aplx(), {(0, 1): {2}}]),
        "load_application": dict(star=[aplx(), {(1, 0): {1}}]),
        "send_signal": dict(signal="stop"),
        "count_cores_in_state": dict(state="run"),
        "wait_for_cores_to_reach_state": dict(state="run", count=1,
                                              poll_interval=0.1,
                                              timeout=0.3),
        "load_routing_tables": dict(routing_tables={(1, 1): rte}),
        "load_routing_table_entries": dict(entries=rte),
        "get_routing_table_entries": {},
        "clear_routing_table_entries": {},
        "get_p2p_routing_table": {},
        "get_chip_info": {},
        "get_working_links": {},
        "get_num_working_cores": {},
        "get_system_info": {},
        "application": {},
        "discover_connections": {},
    }


PROBES = ("read", "sdram_alloc", "send_signal", "get_processor_status")
SKIP = {"application", "discover_connections", "get_system_info",
        "get_machine", "boot"}


def wrapped_methods(cls):
    out = {}
    for name, fn in vars(cls).items():
        if not callable(fn) or name.startswith("_"):
            continue
        src = inspect.unwrap(fn)
        if src is fn:
            continue
        # wrapped by use_contextual_arguments <=> closure knows arg_names
        cl = getattr(fn, "__closure__", None)
        spec = inspect.getfullargspec(src)
        kwonly = {}
        if cl:
            for cell in cl:
                try:
                    v = cell.cell_contents
                except ValueError:
                    continue
                if isinstance(v, dict) and all(isinstance(k, str)
                                               for k in v):
                    kwonly = v
        out[name] = (spec, kwonly)
    return out


class Twin(object):
    """Controller under test (A) and explicit reference controller (B), each
    on its own simulated machine, sharing one virtual network."""

    _template = None
    _structs = None

    def __init__(self):
        import copy
        if Twin._template is None:
            t = SimMachine(repo(), 4, 5)
            t.full_sync = False
            t.tidy_vcpu = True
            t.sync()
            Twin._template = t
        self.sims = {}
        for k in "AB":
            s = copy.deepcopy(Twin._template)
            s.hosts = {"host" + k: (0, 0)}
            self.sims[k] = s
        self.net = Net(self.dispatch, budget=10 ** 7)

    def dispatch(self, sock, data, net):
        k = "A" if sock.addr[0].endswith("A") else "B"
        return self.sims[k](sock, data, net)

    def __enter__(self):
        from rig.machine_control import scp_connection as sc
        from rig.machine_control import machine_controller as mcm
        self.patch = Patched(self.net, [sc, mcm])
        self.patch.__enter__()
        if Twin._structs is None:
            Twin._structs = mcm.MachineController("hostA").structs
        self.A = mcm.MachineController("hostA", structs=Twin._structs)
        self.B = mcm.MachineController("hostB", structs=Twin._structs)
        return self

    def __exit__(self, *a):
        self.patch.__exit__(*a)
        return False

    def trace(self, k, start):
        out = []
        for r in self.sims[k].cmds[start:]:
            out.append((r["raw_chip"], r["cpu"], r["cmd"], r["arg1"],
                        r["arg2"], r["arg3"], r["data"]))
        return out


class Boom(Exception):
    pass


def apply_history(tw, hist):
    """Replay a history on controller A; returns (model stack, problems,
    open context objects)."""
    mc = tw.A
    model = [("ctx", {"app_id": 66})]
    opened = []
    created = []
    problems = []
    for op in hist:
        kind = op[0]
        n0 = len(tw.sims["A"].cmds)
        try:
            if kind == "push":
                ctx = mc(**FRAMES[op[1]])
                ctx.__enter__()
                opened.append(ctx)
                frame = dict(FRAMES[op[1]])
                created.append((ctx, frame, "ctx"))
                model.append(("ctx", frame))
            elif kind == "app":
                ctx = mc.application(op[1])
                ctx.__enter__()
                opened.append(ctx)
                # the application context object can be entered again too
                # (every exit stops the application)
                frame = {"app_id": op[1]}
                created.append((ctx, frame, "app"))
                model.append(("app", frame))
            elif kind == "update":
                mc.update_current_context(**UPDATES[op[1]])
                model[-1][1].update(UPDATES[op[1]])
            elif kind == "repush":
                # enter again the context object created by the op[1]-th
                # earlier push of this history (it may still be open)
                if op[1] >= len(created):
                    continue
                ctx, frame, fkind = created[op[1]]
                ctx.__enter__()
                opened.append(ctx)
                model.append((fkind, frame))
        except Exception as e:
            problems.append(("history_exception", "%r raised %s: %s"
                             % (op, type(e).__name__, e)))
            return model, problems, opened
        if kind in ("push", "app", "update", "repush"):
            pass
        elif kind in ("pop", "pop_exc"):
            if not opened:
                continue
            ctx = opened.pop()
            top = model.pop()
            try:
                if kind == "pop":
                    ctx.__exit__(None, None, None)
                else:
                    try:
                        raise Boom()
                    except Boom as e:
                        ctx.__exit__(Boom, e, e.__traceback__)
            except Exception as e:
                problems.append(("exit_exception", "leaving a block raised "
                                 "%s: %s" % (type(e).__name__, e)))
            sent = tw.sims["A"].cmds[n0:]
            stops = [r for r in sent if r["cmd"] == 22 and
                     (r["arg2"] >> 16) & 0xff == 2]
            if top[0] == "app":
                if len(stops) != 1 or (stops[0]["arg2"] & 0xff) != \
                        top[1]["app_id"]:
                    problems.append(
                        ("application_stop", "leaving application(%d) %s "
                         "sent stop signals for %r"
                         % (top[1]["app_id"],
                            "by exception" if kind == "pop_exc" else
                            "normally",
                            [r["arg2"] & 0xff for r in stops])))
            elif sent:
                problems.append(("unexpected_datagram", "leaving a plain "
                                 "context sent %d datagrams" % len(sent)))
        want = resolve_all(model)
        got = mc.get_context_arguments()
        if got != want:
            problems.append(("context_arguments",
                             "after %r the context arguments are %r, a stack "
                             "of dicts gives %r" % (op, got, want)))
    return model, problems, opened


def resolve_all(model):
    out = {}
    for kind, d in model:
        out.update(d)
    return out


def call_forms(spec, kwonly, vals):
    """Yield (form name, args, kwargs, explicit dict) for the controller
    under test."""
    names = spec.args[1:]
    ctx_pos = [n for n in names if n in CTX_NAMES]
    ctx_kw = [n for n in kwonly if n in CTX_NAMES]
    ctx = ctx_pos + ctx_kw
    star = vals.get("star")
    base_kw = {k: v for k, v in vals.items() if k != "star"}

    def build(explicit, positional):
        if star is not None or not positional:
            args = list(star or [])
            kw = dict(base_kw)
            kw.update(explicit)
            return args, kw
        # positional: everything up to the last contextual positional arg
        last = max(names.index(n) for n in ctx_pos) if ctx_pos else -1
        args = []
        kw = dict(base_kw)
        for n in names[:last + 1]:
            if n in explicit:
                args.append(explicit[n])
            elif n in kw:
                args.append(kw.pop(n))
            else:
                return None
        for n in explicit:
            if n not in names[:last + 1]:
                kw[n] = explicit[n]
        return args, kw
    yield ("none", build({}, False), {})
    full = {n: EXPLICIT[n] for n in ctx}
    yield ("all_keyword", build(full, False), full)
    if ctx_pos and star is None:
        b = build(full, True)
        if b is not None:
            yield ("all_positional", b, full)
    for n in ctx:
        e = {n: EXPLICIT[n]}
        yield ("only_" + n, build(e, False), e)
        e = {n: FALSY[n]}
        yield ("falsy_" + n, build(e, False), e)


def model_resolve(spec, kwonly, vals, model, explicit):
    """Reference: explicit > innermost context > default.  Returns dict of
    resolved contextual args, or None if a required one is missing."""
    from rig.utils.contexts import Required
    names = spec.args[1:]
    defaults = list(spec.defaults or [])
    dflt = {}
    for n, d in zip(names[len(names) - len(defaults):], defaults):
        dflt[n] = d
    for n, d in kwonly.items():
        dflt[n] = d
    ctxvals = resolve_all(model)
    out = {}
    for n in list(names) + list(kwonly):
        if n not in CTX_NAMES:
            continue
        if n in explicit:
            out[n] = explicit[n]
        elif n in ctxvals:
            out[n] = ctxvals[n]
        elif n in dflt and dflt[n] is not Required:
            out[n] = dflt[n]
        else:
            return None
    return out


def battery(tw, model, acc, hist, methods, table):
    """Call every wrapped method in every form in the current state."""
    mcA, mcB = tw.A, tw.B
    for name in sorted(methods):
        if name in SKIP or name not in table:
            continue
        spec, kwonly = methods[name]
        vals = table[name]
        for form, built, explicit in call_forms(spec, kwonly, vals):
            if built is None:
                continue
            args, kw = built
            acc.evaluations += 1
            res = model_resolve(spec, kwonly, vals, model, explicit)
            a0 = len(tw.sims["A"].cmds)
            b0 = len(tw.sims["B"].cmds)
            case = dict(hist=[list(o) for o in hist], method=name, form=form)
            excA = None
            try:
                getattr(mcA, name)(*args, **kw)
            except Exception as e:
                excA = e
            trA = tw.trace("A", a0)
            if res is None:
                if not isinstance(excA, TypeError) or trA:
                    acc.violation(
                        dict(kind="missing_required_not_rejected",
                             method=name), case,
                        "%s (%s) lacks a required contextual argument but %s "
                        "and %d datagrams were sent"
                        % (name, form, "raised %r" % excA if excA else
                           "succeeded", len(trA)), size=len(hist))
                acc.outcome("required_missing")
                continue
            kwB = {k: v for k, v in vals.items() if k != "star"}
            kwB.update(res)
            excB = None
            try:
                # one flat context with the merged arguments: methods called
                # internally resolve their own contextual arguments from it
                with mcB(**resolve_all(model)):
                    getattr(mcB, name)(*list(vals.get("star", [])), **kwB)
            except Exception as e:
                excB = e
            trB = tw.trace("B", b0)
            acc.outcome("calls")
            if trA != trB or type(excA) is not type(excB):
                i = next((i for i in range(min(len(trA), len(trB)))
                          if trA[i] != trB[i]), min(len(trA), len(trB)))
                acc.violation(
                    dict(kind="wrong_target", method=name, form=form.split(
                        "_")[0]), case,
                    "%s (%s) in context %r: datagram %d is %r, the same call "
                    "with explicit %r sends %r (exceptions %r / %r)"
                    % (name, form, resolve_all(model), i,
                       trA[i] if i < len(trA) else None, res,
                       trB[i] if i < len(trB) else None, excA, excB),
                    size=len(hist) * 10 + len(form))
                return False
    return True


def shards(tier):
    out = []
    first_ops = [("push", i) for i in range(len(FRAMES))] + \
        [("app", 1), ("app", 2)] + [("update", i) for i in range(len(UPDATES))]
    for i, op in enumerate(first_ops):
        out.append(dict(part="bfs", first=list(op)))
    for x in (None, 1, 2, 3):
        for y in (None, 0, 1, 2):
            out.append(dict(part="battery", x=x, y=y))
    out += [dict(part="reuse", first=f) for f in ("e0", "e1", "e2", "upd")]
    out += [dict(part="direct"), dict(part="connections", root=[0, 0]),
            dict(part="connections", root=[4, 0]),
            dict(part="connections", root=[1, 5]),
            dict(part="connections", root=[0, 0], size=[24, 12]),
            dict(part="connections", root=[4, 8], size=[12, 24]),
            dict(part="bmp")]
    return out


def successors(hist, depth_left):
    n_open = sum(1 for o in hist if o[0] in ("push", "app", "repush")) - \
        sum(1 for o in hist if o[0] in ("pop", "pop_exc"))
    ops = [("push", i) for i in range(len(FRAMES))] + \
        [("app", 1), ("app", 2)] + \
        [("update", i) for i in range(len(UPDATES))]
    if n_open > 0:
        ops += [("pop",), ("pop_exc",)]
    n_created = sum(1 for o in hist if o[0] in ("push", "app"))
    ops += [("repush", j) for j in range(min(n_created, 2))]
    return ops


def part_bfs(params, tier, acc):
    from rig.machine_control.machine_controller import MachineController
    methods = wrapped_methods(MachineController)
    table = method_table()
    gaps = sorted(n for n in methods if n not in table and n not in SKIP)
    if gaps:
        acc.extra["coverage_gap_methods"] = gaps
    depth = scope(tier)["depth"]
    first = tuple(params["first"])
    seen = set()
    merged_seen = set()
    frontier = [[first]]
    level = 1
    while frontier:
        nxt = []
        for hist in frontier:
            with Twin() as tw:
                model, problems, opened = apply_history(tw, hist)
                acc.transitions += 1
                for kind, msg in problems:
                    acc.violation(dict(kind=kind),
                                  dict(hist=[list(o) for o in hist],
                                       method=None, form=None),
                                  msg + "\n  history %r" % (hist,),
                                  size=len(hist))
                # the state also records which open frames are one and the
                # same context object (re-entered contexts)
                ident = []
                for c in opened:
                    ident.append([id(o) for o in opened].index(id(c)))
                # ... and how often each context object created so far has
                # been entered again / left (deliberately finer than the
                # stack-of-dicts model needs: state kept inside a context
                # object shows up only when it is used a second time)
                uses = (sum(1 for o in hist if o[0] == "repush"),
                        min(2, sum(1 for o in hist
                                   if o[0] in ("pop", "pop_exc"))))
                key = repr(model) + repr(ident) + repr(
                    uses if any(o[0] == "repush" for o in hist) else ())
                new = key not in seen
                if new and len(seen) % 97 == 5:
                    acc.sample(dict(history=[list(o) for o in hist],
                                    model_stack=[list(m) for m in model],
                                    merged=resolve_all(model)))
                if new:
                    seen.add(key)
                    acc.states += 1
                    if len(model) > 1:
                        acc.nontrivial += 1
                    # what a call does depends on the stack only through the
                    # merged arguments: run the method battery once per
                    # distinct merged context
                    # in every state a small probe battery ties the stack to
                    # the datagrams; the full battery runs once per merged
                    # context in part "battery"
                    battery(tw, model, acc, hist,
                            {k: methods[k] for k in PROBES if k in methods},
                            table)
                # unwind so that closing callbacks run inside the patch
                while opened:
                    try:
                        opened.pop().__exit__(None, None, None)
                    except Exception:
                        pass
            # a history that re-enters a context object may go one step
            # further (so that the re-entered block can be left again)
            lim = depth + (1 if any(o[0] == "repush" for o in hist) else 0)
            if new and level < lim:
                for op in successors(hist, lim - level):
                    if level >= depth and op[0] not in ("pop", "pop_exc"):
                        continue
                    nxt.append(hist + [op])
            elif not new and level < depth and hist[-1][0] in ("pop",
                                                               "pop_exc"):
                pass
        frontier = nxt
        level += 1
    acc.traces += acc.transitions
    acc.sample(dict(part="bfs", first=list(first), states=len(seen),
                    methods=len([m for m in methods if m in table])))


def part_battery(params, tier, acc):
    """Every wrapped method x call form in every merged context."""
    from rig.machine_control.machine_controller import MachineController
    methods = wrapped_methods(MachineController)
    table = method_table()
    for p in (None, 1, 2, 3):
        for app in (None, 1, 2, 5):
            merged = {}
            for k, v in (("x", params["x"]), ("y", params["y"]), ("p", p),
                         ("app_id", app)):
                if v is not None:
                    merged[k] = v
            # reach the merged context through two nested frames, the inner
            # one overriding a stale value of each key
            outer = {k: (v + 1) % 4 for k, v in merged.items()}
            keys = sorted(merged)
            inner1 = {k: merged[k] for k in keys[::2]}
            inner2 = {k: merged[k] for k in keys[1::2]}
            with Twin() as tw:
                ctxs = [tw.A(**outer), tw.A(**inner1), tw.A(**inner2)]
                for c in ctxs:
                    c.__enter__()
                model = [("ctx", {"app_id": 66}), ("ctx", outer),
                         ("ctx", inner1), ("ctx", inner2)]
                acc.states += 1
                acc.nontrivial += 1
                battery(tw, model, acc,
                        [["frames", outer, inner1, inner2]], methods, table)
                for c in reversed(ctxs):
                    c.__exit__(None, None, None)
    acc.sample(dict(part="battery", x=params["x"], y=params["y"],
                    methods=sorted(m for m in methods if m in table)))


def part_direct(params, tier, acc):
    """Wire-level: destination bytes and application-id fields."""
    with Twin() as tw:
        mc = tw.A
        sim = tw.sims["A"]
        checks = []

        def sent(n0):
            return [r for r in sim.cmds[n0:] if not (r["cmd"] == 0)]
        for (x, y, p) in ((0, 0, 0), (1, 2, 3), (3, 4, 17), (2, 0, 1)):
            with mc(x=x, y=y, p=p):
                for name, args in (("read", (0x60000000, 4)),
                                   ("write", (0x60000000, b"abcd")),
                                   ("fill", (0x60000000, 1, 4))):
                    n0 = len(sim.cmds)
                    acc.evaluations += 1
                    acc.nontrivial += 1
                    getattr(mc, name)(*args)
                    for r in sent(n0):
                        exp_cpu = p
                        if r["raw_chip"] != (x, y) or r["cpu"] != exp_cpu:
                            acc.violation(
                                dict(kind="destination", method=name),
                                dict(part="direct", method=name,
                                     target=[x, y, p]),
                                "%s in context (%d,%d,%d) sent command %d to "
                                "chip %r core %d" % (name, x, y, p, r["cmd"],
                                                     r["raw_chip"],
                                                     r["cpu"]))
        # explicit arguments beat the context - also when the explicit value
        # happens to equal the method's default (p=0, x=y=255)
        with mc(x=3, y=4, p=3):
            for form, call, want in (
                    ("keyword p=0", lambda: mc.read(0x60000000, 4, x=1, y=2,
                                                    p=0), ((1, 2), 0)),
                    ("positional p=0", lambda: mc.read(0x60000000, 4, 1, 2, 0),
                     ((1, 2), 0)),
                    ("keyword only p=0", lambda: mc.read(0x60000000, 4, p=0),
                     ((3, 4), 0)),
                    ("write keyword p=0", lambda: mc.write(
                        0x60000000, b"abcd", x=2, y=0, p=0), ((2, 0), 0)),
                    ("sver x=y=255", lambda: mc.get_software_version(
                        x=255, y=255), ((255, 255), 0))):
                n0 = len(sim.cmds)
                acc.evaluations += 1
                acc.nontrivial += 1
                call()
                got = [(r["raw_chip"], r["cpu"]) for r in sim.cmds[n0:]]
                if got != [want]:
                    acc.violation(
                        dict(kind="explicit_equal_to_default"),
                        dict(part="direct", form=form),
                        "inside mc(x=3, y=4, p=3) a call with explicit "
                        "arguments (%s) was sent to %r, expected %r"
                        % (form, got, [want]))
        for app in (0, 1, 66, 255):
            with mc(app_id=app, x=1, y=1):
                n0 = len(sim.cmds)
                acc.evaluations += 4
                mc.sdram_alloc(8)
                mc.send_signal("stop")
                mc.count_cores_in_state("run")
                mc.clear_routing_table_entries()
                got = [(r["cmd"], r["arg1"], r["arg2"]) for r in sent(n0)]
                want_ok = (len(got) == 4 and
                           got[0][0] == 28 and (got[0][1] >> 8) == app and
                           got[1][0] == 22 and (got[1][2] & 0xff) == app and
                           (got[1][2] >> 16) & 0xff == 2 and
                           got[2][0] == 22 and (got[2][2] & 0xff) == app and
                           got[3][0] == 28 and (got[3][1] >> 8) == app)
                if not want_ok:
                    acc.violation(dict(kind="app_id_field"),
                                  dict(part="direct", app=app),
                                  "application id %d not carried in the "
                                  "documented fields: %r" % (app, got))
        # an iterable of states with an explicit application id
        n0 = len(sim.cmds)
        mc.count_cores_in_state(["run", "wait"], 17)
        bad = [r for r in sent(n0) if (r["arg2"] & 0xff) != 17]
        if bad or len(sent(n0)) != 2:
            acc.violation(dict(kind="app_id_field", method="count_multi"),
                          dict(part="direct", app=17),
                          "count_cores_in_state([..], 17) sent app ids %r"
                          % [r["arg2"] & 0xff for r in sent(n0)])
    # ---- the controller's initial context (constructor argument): it IS
    # the outermost context - nothing is added to it, nothing taken away
    with Twin() as tw:
        from rig.machine_control import machine_controller as mcm
        sim = tw.sims["A"]
        for ic in (None, {}, {"x": 1, "y": 2}, {"app_id": 30},
                   {"x": 2, "y": 0, "p": 3, "app_id": 31}, {"p": 5}):
            kw = {} if ic is None else dict(initial_context=dict(ic))
            eff = {"app_id": 66} if ic is None else dict(ic)
            mc = mcm.MachineController("hostA", structs=Twin._structs, **kw)
            case = dict(part="direct", initial_context=ic)
            acc.evaluations += 1
            acc.nontrivial += 1
            if mc.get_context_arguments() != eff:
                acc.violation(dict(kind="initial_context"), case,
                              "a controller made with initial_context=%r "
                              "has context arguments %r"
                              % (ic, mc.get_context_arguments()))
                continue
            if ic is not None and kw["initial_context"] != ic:
                acc.violation(dict(kind="initial_context"), case,
                              "the caller's initial_context dict was changed")
            calls = [
                ("send_signal", lambda: mc.send_signal("stop"), ("app_id",),
                 lambda r: (r["arg2"] & 0xff)),
                ("sdram_alloc", lambda: mc.sdram_alloc(16),
                 ("x", "y", "app_id"), lambda r: (r["arg1"] >> 8) & 0xff),
                ("count_cores_in_state",
                 lambda: mc.count_cores_in_state("run"), ("app_id",),
                 lambda r: (r["arg2"] & 0xff)),
                ("get_chip_info", lambda: mc.get_chip_info(), ("x", "y"),
                 None),
                ("read", lambda: mc.read(0x60000000, 4), ("x", "y"), None)]
            for name, fn, required, app_of in calls:
                n0 = len(sim.cmds)
                acc.evaluations += 1
                missing = [a for a in required if a not in eff]
                try:
                    fn()
                    exc = None
                except TypeError as e:
                    exc = e
                except Exception as e:
                    acc.violation(dict(kind="exception", method=name,
                                       exc=type(e).__name__), case,
                                  "%s raised %s: %s" % (name,
                                                        type(e).__name__, e))
                    continue
                sent_ = [r for r in sim.cmds[n0:] if r["cmd"] != 0]
                if missing:
                    if exc is None or sent_:
                        acc.violation(
                            dict(kind="missing_argument_accepted",
                                 method=name), case,
                            "%s on a controller whose initial context is %r "
                            "lacks %r but %s" % (
                                name, ic, missing,
                                "was sent: %r" % [(r["raw_chip"], r["cpu"],
                                                   r["cmd"], hex(r["arg1"]),
                                                   hex(r["arg2"]))
                                                  for r in sent_]
                                if sent_ else "raised nothing"))
                    continue
                if exc is not None:
                    acc.violation(dict(kind="spurious_rejection",
                                       method=name), case,
                                  "%s rejected (%s) although the initial "
                                  "context %r supplies %r" % (name, exc, ic,
                                                              required))
                    continue
                for r in sent_:
                    if "x" in required and r["raw_chip"] != (eff["x"],
                                                             eff["y"]):
                        acc.violation(dict(kind="destination", method=name),
                                      case, "%s went to chip %r, initial "
                                      "context %r" % (name, r["raw_chip"],
                                                      ic))
                    if name == "read" and r["cpu"] != eff.get("p", 0):
                        acc.violation(dict(kind="destination", method=name),
                                      case, "read went to core %d, initial "
                                      "context %r" % (r["cpu"], ic))
                    if app_of is not None and app_of(r) != eff["app_id"]:
                        acc.violation(dict(kind="app_id_field", method=name),
                                      case, "%s carried application id %d, "
                                      "initial context %r"
                                      % (name, app_of(r), ic))
    # leaving a block restores the previous arguments even when a closing
    # callback fails (the machine stops answering: the stop signal sent on
    # leaving application() times out)
    for outer in (None, dict(x=1, y=2), dict(app_id=7)):
        with Twin() as tw:
            mc = tw.A
            sim = tw.sims["A"]
            acc.evaluations += 1
            acc.nontrivial += 1
            case = dict(part="direct", exit_fault=True, outer=outer)
            raised = None
            problem = None
            try:
                ctx = mc(**outer) if outer else None
                if ctx:
                    ctx.__enter__()
                before = mc.get_context_arguments()
                try:
                    with mc.application(31):
                        inside = mc.get_context_arguments()
                        sim.fate = lambda sim_, rec: ["lost"]
                except Exception as e:
                    raised = e
                sim.fate = None
                after = mc.get_context_arguments()
                if inside.get("app_id") != 31:
                    problem = "application(31) did not set app_id inside"
                elif raised is None:
                    problem = ("the stop signal cannot have been "
                               "acknowledged but leaving the block raised "
                               "nothing")
                elif after != before:
                    problem = ("after leaving application(31) with a failing "
                               "stop signal (%s) the context arguments are "
                               "%r, before the block they were %r"
                               % (type(raised).__name__, after, before))
                if ctx:
                    ctx.__exit__(None, None, None)
                    if mc.get_context_arguments().get("x") == 1 and \
                            not problem:
                        problem = "outer context still in force after exit"
            except Exception as e:
                problem = problem or ("%s: %s" % (type(e).__name__, e))
            if problem:
                acc.violation(dict(kind="exit_with_failing_callback"), case,
                              problem)
    acc.sample(dict(part="direct"))


def part_reuse(params, tier, acc):
    """Long-lived context objects entered again and again under different
    enclosing contexts: every sequence of <=5 operations over {enter c1,
    enter c2, enter c3, leave, update} on one controller.  The arguments in
    force - looked at after every operation, or only after the first and the
    last one (a cache could be refreshed by looking) - are those of a stack
    of dicts, and a read goes where they say."""
    ops = ["e0", "e1", "e2", "leave", "upd"]
    first = params["first"]
    for n in range(1, 6):
        for rest in itertools.product(ops, repeat=n - 1):
            seq = (first,) + rest
            depth = 0
            ok = True
            for o in seq:
                if o == "leave":
                    if depth == 0:
                        ok = False
                        break
                    depth -= 1
                elif o != "upd":
                    depth += 1
            if not ok:
                continue
            for look in ("always", "ends"):
                if look == "ends" and n < 3:
                    continue
                acc.evaluations += 1
                acc.nontrivial += 1
                acc.transitions += 1
                bad = reuse_execution(seq, look)
                if bad:
                    acc.violation(dict(kind="reused_context_objects"),
                                  dict(part="reuse", first=first,
                                       seq=list(seq), look=look), bad,
                                  size=len(seq))
    acc.sample(dict(part="reuse", first=first, ops=ops))


def reuse_execution(seq, look):
    frames = [dict(x=1, y=2), dict(app_id=30, p=3), dict(x=3)]
    with Twin() as tw:
        mc = tw.A
        objs = [mc(**f) for f in frames]
        dicts = [dict(f) for f in frames]
        base = {"app_id": 66}
        stack = []
        opened = []
        bad = None
        want = dict(base)
        for step, o in enumerate(seq):
            if o == "leave":
                opened.pop().__exit__(None, None, None)
                stack.pop()
            elif o == "upd":
                mc.update_current_context(y=4)
                (dicts[stack[-1]] if stack else base)["y"] = 4
            else:
                i = int(o[1])
                objs[i].__enter__()
                opened.append(objs[i])
                stack.append(i)
            want = dict(base)
            for i in stack:
                want.update(dicts[i])
            if look == "ends" and 0 < step < len(seq) - 1:
                continue
            got = mc.get_context_arguments()
            if got != want:
                bad = ("after %r (arguments looked at: %s) the context "
                       "arguments are %r, the stack of context objects "
                       "gives %r" % (seq[:step + 1], look, got, want))
                break
        if not bad and "x" in want and "y" in want:
            n0 = len(tw.sims["A"].cmds)
            tgt = (want["x"], want["y"])
            try:
                mc.read(0x60000000, 4)
                r = tw.sims["A"].cmds[n0:]
                if tgt in tw.sims["A"].chips and (
                        not r or r[-1]["raw_chip"] != tgt or
                        r[-1]["cpu"] != want.get("p", 0)):
                    bad = ("after %r a read went to %r, the context says "
                           "chip %r core %r"
                           % (seq, [(c["raw_chip"], c["cpu"]) for c in r],
                              tgt, want.get("p", 0)))
            except Exception as e:
                if tgt in tw.sims["A"].chips:
                    bad = "read raised %s: %s" % (type(e).__name__, e)
        while opened:
            try:
                opened.pop().__exit__(None, None, None)
            except Exception:
                pass
    return bad


def part_connections(params, tier, acc):
    """Connection of the board that holds the target (SpiNN-5 tiling)."""
    from checks.c19 import tile
    from rig.machine_control import scp_connection as sc
    from rig.machine_control import machine_controller as mcm
    rx, ry = params["root"]
    W, H = params.get("size", [12, 12])
    sim = SimMachine(repo(), W, H)
    sim.full_sync_chips = {(rx, ry), (1, 1)}
    sim.root = (rx, ry)
    eths = {}
    offs = [(ox + 12 * i, oy + 12 * j) for i in range(W // 12)
            for j in range(H // 12) for ox, oy in ((0, 0), (4, 8), (8, 4))]
    for i, (ox, oy) in enumerate(offs):
        e = ((rx + ox) % W, (ry + oy) % H)
        c = sim.chips[e]
        c.eth_up = True
        c.ip = (10, 9, 0, i + 1)
        eths[e] = "10.9.0.%d" % (i + 1)
    sim.hosts = {"host": (rx, ry)}
    for e, ip in eths.items():
        sim.hosts[ip] = e
    # one board's Ethernet link is down: fall back to the initial connection
    down = sorted(eths)[-1]
    for which in ("all_up", "one_down"):
        if which == "one_down":
            sim.chips[down].eth_up = False
        net = Net(sim, budget=10 ** 7)
        with Patched(net, [sc, mcm]):
            sim.sync()
            mc = mcm.MachineController("host")
            acc.evaluations += 1
            try:
                if which == "all_up":
                    n = mc.discover_connections()
                else:
                    # the discovery is asked for inside a context block that
                    # names some other chip: what the controller learns about
                    # the machine (its root chip) must not depend on that
                    with mc(x=1, y=1):
                        n = mc.discover_connections()
            except Exception as e:
                acc.violation(dict(kind="exception", exc=type(e).__name__),
                              dict(part="connections", root=[rx, ry]),
                              "discover_connections raised %r" % e)
                return
            for x in range(W):
                for y in range(H):
                    acc.evaluations += 1
                    acc.nontrivial += 1
                    n0 = len(sim.cmds)
                    with mc(x=x, y=y):
                        mc.read(0x60000000, 4)
                    e, _ = tile(x, y, W, H, rx, ry)
                    want = eths[e] if (which == "all_up" or e != down) \
                        else "host"
                    if e == (rx, ry) and want != "host":
                        # the root board is reachable through either name
                        pass
                    hosts = set(r["host"] for r in sim.cmds[n0:])
                    ok = hosts == {want} or (e == (rx, ry) and
                                             hosts <= {want, "host"})
                    if not ok:
                        acc.violation(
                            dict(kind="connection"),
                            dict(part="connections", root=[rx, ry],
                                 size=[W, H], chip=[x, y], which=which),
                            "command for chip (%d,%d) (board of %r) left on "
                            "connection(s) %r, expected %r (root %r, %s)"
                            % (x, y, e, sorted(hosts), want, (rx, ry),
                               which), size=x + y)
                        return
    acc.sample(dict(part="connections", root=[rx, ry], eth=sorted(eths)))


class BMPResponder(object):
    def __init__(self):
        self.cmds = []

    def __call__(self, sock, data, net):
        flags, tag, dpc, spc, dy, dx, sy, sx = struct.unpack_from("<8B", data,
                                                                  2)
        cmd, seq = struct.unpack_from("<2H", data, 10)
        body = data[14:]
        a = list(struct.unpack_from("<3I", body.ljust(12, b"\0")))
        self.cmds.append(dict(host=sock.addr[0], cpu=dpc & 0x1f,
                              chip=(dx, dy), cmd=cmd, arg1=a[0], arg2=a[1],
                              arg3=a[2]))
        payload = b""
        args = [0, (133 << 16) | 256, 0]
        if cmd == 0:
            payload = b"BC&MP/Spin5-BMP\0"
        elif cmd == 17:
            args = []
            payload = struct.pack("<I", 0xdeadbeef)
        elif cmd == 48:
            args = []
            payload = struct.pack("<8H4h4h4hII", *([100] * 20 + [0, 0]))
        elif cmd in (18, 25, 57):
            args = []
        pkt = (b"\x00\x00" + bytes([0x07, tag, spc, dpc, sy, sx, dy, dx]) +
               struct.pack("<2H", 0x80, seq) +
               b"".join(struct.pack("<I", v) for v in args) + payload)
        return [(net.LATENCY, pkt, dict(kind="ok"))]


def part_bmp(params, tier, acc):
    from rig.machine_control import scp_connection as sc
    from rig.machine_control import bmp_controller as bm
    resp = BMPResponder()
    net = Net(resp, budget=10 ** 7)
    hosts = {(0, 0): "f00", (0, 1): "f01", (1, 0): "f10", (1, 1): "f11",
             (0, 0, 3): "b003", (1, 0, 5): "b105"}
    frames = [{}, {"cabinet": 1}, {"frame": 1}, {"board": 3}, {"board": 5},
              {"cabinet": 1, "board": 5}, {"cabinet": 0, "frame": 1,
                                           "board": 2}]
    with Patched(net, [sc, bm]):
        bc = bm.BMPController(hosts)
        for f1, f2 in itertools.product(frames, repeat=2):
            for how in ("nested", "exception"):
                model = {"cabinet": 0, "frame": 0, "board": 0}
                model.update(f1)
                model.update(f2)
                for name, args in (("get_software_version", ()),
                                   ("set_led", (1, True)),
                                   ("read_fpga_reg", (1, 0x40)),
                                   ("write_fpga_reg", (2, 0x44, 9)),
                                   ("read_adc", ())):
                    for explicit in ({}, {"board": 7}, {"cabinet": 0,
                                                        "frame": 0,
                                                        "board": 0}):
                        acc.evaluations += 1
                        acc.nontrivial += 1
                        n0 = len(resp.cmds)
                        try:
                            with bc(**f1):
                                with bc(**f2):
                                    getattr(bc, name)(*args, **explicit)
                                    if how == "exception":
                                        raise Boom()
                        except Boom:
                            pass
                        except Exception as e:
                            acc.violation(
                                dict(kind="exception", exc=type(e).__name__,
                                     method=name),
                                dict(part="bmp", frames=[f1, f2],
                                     method=name),
                                "%s raised %s: %s" % (name,
                                                      type(e).__name__, e))
                            continue
                        r = dict(model)
                        r.update(explicit)
                        key3 = (r["cabinet"], r["frame"], r["board"])
                        want_host = hosts.get(key3, hosts.get(key3[:2]))
                        sent = [c for c in resp.cmds[n0:]]
                        if any(c["host"] != want_host or c["cpu"] !=
                               r["board"] for c in sent) or not sent:
                            acc.violation(
                                dict(kind="bmp_target", method=name),
                                dict(part="bmp", frames=[f1, f2],
                                     method=name, explicit=explicit),
                                "%s with contexts %r,%r explicit %r went to "
                                "%r, expected host %r board %d"
                                % (name, f1, f2, explicit,
                                   [(c["host"], c["cpu"]) for c in sent],
                                   want_host, r["board"]))
                        got = bc.get_context_arguments()
                        if got != {"cabinet": 0, "frame": 0, "board": 0}:
                            acc.violation(
                                dict(kind="context_arguments"),
                                dict(part="bmp", frames=[f1, f2]),
                                "after leaving both blocks (%s) context is "
                                "%r" % (how, got))
                            bc = bm.BMPController(hosts)
        # ---- several boards named at once (documented: the LED command
        # goes to the FIRST board listed, the power command to board 0 of the
        # frame; the bit mask names exactly the boards given)
        bc = bm.BMPController(hosts)
        for boards in ([3, 0], [0, 3], [5, 3, 1], (2,), [7, 4], [3]):
            for via in ("explicit", "context"):
                for name in ("set_led", "set_power"):
                    acc.evaluations += 1
                    acc.nontrivial += 1
                    n0 = len(resp.cmds)
                    args = (1, True) if name == "set_led" else (False,)
                    try:
                        if via == "explicit":
                            getattr(bc, name)(*args, board=list(boards))
                        else:
                            with bc(board=list(boards)):
                                getattr(bc, name)(*args)
                    except Exception as e:
                        acc.violation(
                            dict(kind="exception", exc=type(e).__name__,
                                 method=name),
                            dict(part="bmp", boards=list(boards), via=via),
                            "%s(board=%r) raised %s: %s"
                            % (name, boards, type(e).__name__, e))
                        continue
                    first = boards[0] if name == "set_led" else 0
                    want_host = hosts.get((0, 0, first), hosts[(0, 0)])
                    mask = sum(1 << b for b in set(boards))
                    sent = resp.cmds[n0:]
                    if len(sent) != 1 or sent[0]["host"] != want_host or \
                            sent[0]["cpu"] != first or \
                            sent[0]["arg2"] != mask:
                        acc.violation(
                            dict(kind="bmp_board_list", method=name),
                            dict(part="bmp", boards=list(boards), via=via),
                            "%s for boards %r (%s) sent %r; expected one "
                            "command to host %r board %d with board mask %#x"
                            % (name, boards, via,
                               [(c["host"], c["cpu"], hex(c["arg2"]))
                                for c in sent], want_host, first, mask))
    acc.sample(dict(part="bmp", frames=frames))


def run_shard(params, tier, acc):
    globals()["part_" + params["part"]](params, tier, acc)


def replay(case, acc):
    from rig.machine_control.machine_controller import MachineController
    if case.get("part") == "direct":
        part_direct({}, "quick", acc)
    elif case.get("part") == "connections":
        part_connections(dict(root=case["root"],
                              size=case.get("size", [12, 12])), "quick", acc)
    elif case.get("part") == "bmp":
        part_bmp({}, "quick", acc)
    elif case.get("part") == "reuse":
        part_reuse(dict(first=case["first"]), "quick", acc)
    else:
        methods = wrapped_methods(MachineController)
        table = method_table()
        if case["hist"] and case["hist"][0][0] == "frames":
            _, outer, inner1, inner2 = case["hist"][0]
            with Twin() as tw:
                ctxs = [tw.A(**outer), tw.A(**inner1), tw.A(**inner2)]
                for c in ctxs:
                    c.__enter__()
                model = [("ctx", {"app_id": 66}), ("ctx", outer),
                         ("ctx", inner1), ("ctx", inner2)]
                battery(tw, model, acc, case["hist"],
                        {case["method"]: methods[case["method"]]}, table)
                for c in reversed(ctxs):
                    c.__exit__(None, None, None)
            return
        hist = [tuple(o) for o in case["hist"]]
        with Twin() as tw:
            model, problems, opened = apply_history(tw, hist)
            for kind, msg in problems:
                acc.violation(dict(kind=kind), case, msg)
            if case.get("method"):
                battery(tw, model, acc, hist,
                        {case["method"]: methods[case["method"]]}, table)
            while opened:
                try:
                    opened.pop().__exit__(None, None, None)
                except Exception:
                    pass


def selftest():
    m = [("ctx", {"app_id": 66}), ("ctx", {"x": 1}), ("app", {"app_id": 2})]
    assert resolve_all(m) == {"app_id": 2, "x": 1}
