"""C01 - multicast packets reach exactly the cores of their net's sinks.

E3 (+E5 for router tie-breaks): Part A chains allocate -> route ->
routing_tree_to_tables -> minimise_tables by hand from EVERY feasible
placement of small graphs on small (faulty) machines under several
configurations; Part B runs both wrappers with every placer.  The oracle
walks a packet for every net through the *final* routing tables (first match,
default routing) over the machine's working links and compares the multiset
of deliveries with the one computed from placements, allocations and
constraints.  It never looks at routing trees."""
import itertools
import random as _random

from mc.explore import explore, FakeRandom, Chooser
from oracles.pr import M, wrap_links, VEC

PROPERTY = "C01"
LEVEL = "exploration"
TECHNIQUE = ("bounded-exhaustive enumeration of graphs x machines x ALL "
             "feasible placements x pipeline configurations (and both "
             "wrappers x all placers) with a packet-walk oracle over the "
             "final routing tables")
RULE = ("machines 2x1,2x2,3x2,3x3 as torus and mesh with <=1 dead chip and "
        "<=1 dead directed link (thorough: <=2 links); graphs of <=3 (4) "
        "vertices incl. a zero-core device vertex with a route-endpoint "
        "constraint, self-loops, repeated sinks, two sinks on one chip; every "
        "feasible placement; radius {0,1,20} x minimisation methods x target "
        "{None,0,1,2,1023}; two key families (full masks, masks with don't-"
        "care bits, two concrete keys per net). Non-trivial: net leaves its "
        "source chip; cases are distinct by construction")
ASSUMPTIONS = [
    "hardware semantics: first matching entry decides; without a match a "
    "packet that arrived on a link continues straight on, a locally "
    "generated one is dropped",
    "links named by route-endpoint constraints are exempt from the liveness "
    "requirement (documented) and end the walk",
    "MinimisationFailedError is admissible only if some chip's unminimised "
    "table is longer than its target",
]

CAP = 3          # cores per chip; core 0 reserved for the monitor


def scope(tier):
    q = tier == "quick"
    return dict(machines=["2x1", "2x2", "3x2"] + ([] if q else ["3x3"]),
                max_dead_links=1 if q else 2, radii=[0, 1, 20],
                targets=[None, 0, 1, 2, 1023],
                methods=["rde", "oc", "default"], tiebreak_bound=0 if q else 1)


GRAPHS = [
    # vertices: name -> cores needed (0 = device with endpoint constraint)
    dict(v={"a": 1, "b": 1}, nets=[("a", ["b"])]),
    dict(v={"a": 1, "b": 2}, nets=[("a", ["b"]), ("b", ["a"])]),
    dict(v={"a": 1, "b": 1, "c": 1}, nets=[("a", ["b", "c"])]),
    dict(v={"a": 1, "b": 1, "c": 1}, nets=[("a", ["b", "c"]),
                                           ("c", ["a", "a"])]),
    dict(v={"a": 1, "b": 2, "c": 1}, nets=[("a", ["a", "b"]),
                                           ("b", ["c"]), ("c", ["b"])]),
    dict(v={"a": 2, "b": 1, "d": 0}, nets=[("a", ["b", "d"]),
                                           ("b", ["d"])]),
    dict(v={"a": 1, "b": 1, "c": 2}, nets=[("a", ["c"]), ("b", ["c"]),
                                           ("c", ["a", "b"])]),
    # "n" needs nothing and has no endpoint: it is placed and listed as a
    # sink (after a sink that has cores) but nothing is delivered for it
    dict(v={"a": 1, "b": 2, "n": None}, nets=[("a", ["b", "n"]),
                                              ("b", ["n", "a"])]),
]
GRAPHS4 = [
    dict(v={"a": 1, "b": 1, "c": 1, "e": 1},
         nets=[("a", ["b", "c", "e"]), ("e", ["a"])]),
    dict(v={"a": 1, "b": 1, "c": 1, "d": 0},
         nets=[("a", ["b", "d"]), ("b", ["c", "d"]), ("c", ["a"])]),
]

KEYSETS = {
    "full": [(0x10, 0xffffffff), (0x11, 0xffffffff), (0x12, 0xffffffff),
             (0x13, 0xffffffff)],
    "dc": [(0x0, 0xfffffff3 ^ 0x3 | 0xc), (0x4, 0xc), (0x8, 0xc),
           (0xc, 0xc)],
}
KEYSETS["dc"] = [(0x0, 0xfffffffc), (0x4, 0xfffffffc), (0x8, 0xfffffffc),
                 (0xc, 0xfffffffc)]


def shards(tier):
    out = []
    sc = scope(tier)
    for mname in sc["machines"]:
        for mesh in (False, True):
            for gi in range(len(GRAPHS) + (0 if tier == "quick" else
                                           len(GRAPHS4))):
                if tier != "quick" and mname == "2x2":
                    # the heaviest family is split over the machine variants
                    for vk in range(4):
                        out.append(dict(part="A", machine=mname, mesh=mesh,
                                        graph=gi, vk=vk))
                    continue
                out.append(dict(part="A", machine=mname, mesh=mesh, graph=gi))
    for k in range(16):
        out.append(dict(part="many", k=k))
    for pl in ["sa", "sa_python", "hilbert", "rcm", "breadth_first",
               "sequential", "rand"]:
        out.append(dict(part="B", placer=pl))
    out.append(dict(part="sim"))
    return out


# ---------------------------------------------------------------- the walk
def walk_packet(tables, m, src_chip, key, endpoints):
    """-> (error or None, deliveries list [(chip, core)], exits [(chip,
    link)])"""
    deliveries = []
    exits = []
    seen = set()
    stack = [(tuple(src_chip), None)]       # (chip, direction of travel)
    steps = 0
    while stack:
        chip, travel = stack.pop()
        steps += 1
        if steps > 500:
            return "packet still circulating after 500 hops", deliveries, \
                exits
        if (chip, travel) in seen:
            return ("packet visits chip %r travelling %r twice "
                    "(circulation)" % (chip, travel)), deliveries, exits
        seen.add((chip, travel))
        entry = None
        for e in tables.get(chip, []):
            if key & e.mask == e.key:
                entry = e
                break
        if entry is None:
            if travel is None:
                return ("packet with key %#x generated on chip %r matches no "
                        "entry and is dropped" % (key, chip)), deliveries, \
                    exits
            routes = [travel]
        else:
            routes = sorted(int(r) for r in entry.route)
        for r in routes:
            if r >= 6:
                deliveries.append((chip, r - 6))
                continue
            if (chip, r) in endpoints:
                exits.append((chip, r))
                continue
            if not m.link_ok(chip, r):
                return ("packet with key %#x leaves chip %r on link %d which "
                        "is not a working link to a working chip"
                        % (key, chip, r)), deliveries, exits
            stack.append((m.dest(chip, r), r))
    return None, deliveries, exits


def expected_for(net_src, sinks, placements, allocations, endpoint_of, Cores):
    dl = []
    ex = []
    for s in sinks:
        chip = tuple(placements[s])
        if s in endpoint_of:
            r = endpoint_of[s]
            if r >= 6:
                dl.append((chip, r - 6))
            else:
                ex.append((chip, r))
            continue
        sl = allocations.get(s, {}).get(Cores)
        if sl is not None:
            for c in range(sl.start, sl.stop):
                dl.append((chip, c))
    return dl, ex


def check_tables(acc, case, tables, m, nets, net_keys, placements,
                 allocations, endpoint_of, Cores, keyset_dc):
    for net in nets:
        key, mask = net_keys[net]
        want_d, want_x = expected_for(net.source, net.sinks, placements,
                                      allocations, endpoint_of, Cores)
        # a sink listed twice is still one set of cores
        want_d = sorted(set(want_d))
        want_x = sorted(set(want_x))
        endpoints = set(want_x)
        keys = [key] + ([key | (~mask & 0x3)] if keyset_dc else [])
        for k in keys:
            err, dl, ex = walk_packet(tables, m, placements[net.source], k,
                                      endpoints)
            if err:
                acc.violation(dict(kind="walk", detail=err.split(" ")[1]
                                   if err.startswith("packet") else "x"),
                              case, "net %r->%r: %s\n  %s"
                              % (net.source, net.sinks, err, describe(case)),
                              size=csize(case))
                return False
            if sorted(dl) != want_d or sorted(ex) != want_x:
                acc.violation(
                    dict(kind="delivery"), case,
                    "net %r->%r key %#x delivered to cores %r exits %r, "
                    "expected cores %r exits %r (each exactly once)\n  %s"
                    % (net.source, net.sinks, k, sorted(dl), sorted(ex),
                       want_d, want_x, describe(case)), size=csize(case))
                return False
    return True


def describe(case):
    return " ".join("%s=%r" % (k, v) for k, v in sorted(case.items())
                    if not k.startswith("_"))


def csize(case):
    return len(repr(case))


# ------------------------------------------------------------------ part A
def machine_variants(name, mesh, tier):
    w, h = {"2x1": (2, 1), "2x2": (2, 2), "3x2": (3, 2), "3x3": (3, 3)}[name]
    base = sorted(wrap_links(w, h)) if mesh else []
    links = [(x, y, l) for x in range(w) for y in range(h) for l in range(6)
             if (x, y, l) not in set(base)]
    chips = [(x, y) for x in range(w) for y in range(h)]
    maxl = scope(tier)["max_dead_links"]
    if w * h > 4:
        maxl = min(maxl, 1)   # pairs of dead links only on <= 4 chips
    if w * h > 6:
        maxl = 0        # 3x3: fault-free and one dead chip; dead links are
        #                 left to C03
    for dc in [None] + chips:
        if dc and len(chips) < 3:
            continue
        yield (w, h, [dc] if dc else [], base)
        for n in range(1, maxl + 1):
            for dl in itertools.combinations(links, n):
                if dc and n > 1:
                    continue
                # one dead directed link; also the same link dead in both
                # directions
                yield (w, h, [dc] if dc else [], base + list(dl))


def base_links(w, h, mesh):
    return sorted(wrap_links(w, h)) if mesh else []


def feasible_placements(verts, chips, pinned):
    names = sorted(verts)
    for combo in itertools.product(chips, repeat=len(names)):
        pl = dict(zip(names, combo))
        if any(pl[v] != c for v, c in pinned.items()):
            continue
        use = {}
        for v, c in pl.items():
            use[c] = use.get(c, 0) + (verts[v] or 0)
        if all(u <= CAP - 1 for u in use.values()):
            yield pl


def build_problem(graph, keyset):
    from rig.netlist import Net
    # weights only matter to placers that optimise wire length; delivery
    # must not depend on them (zero and fractional weights included)
    wts = (1.0, 0.0, 2.5, 0.5)
    nets = [Net(s, list(t), wts[(i + len(t)) % 4])
            for i, (s, t) in enumerate(graph["nets"])]
    if keyset == "many":
        return nets, {n: (graph["keys"][i], 0xffffffff)
                      for i, n in enumerate(nets)}
    keys = KEYSETS[keyset]
    net_keys = {n: keys[i] for i, n in enumerate(nets)}
    return nets, net_keys


def run_pipeline(case, acc, m, graph, pl, cfg, tier, ch):
    """One hand-chained pipeline run from placement `pl`."""
    from rig.place_and_route import Cores, Machine
    from rig.place_and_route import allocate as allocate_fn
    from rig.place_and_route.route import ner
    from rig.place_and_route.route import utils as rutils
    from rig import geometry
    from rig.place_and_route.constraints import (
        ReserveResourceConstraint, LocationConstraint,
        RouteEndpointConstraint)
    from rig.place_and_route.exceptions import (
        InsufficientResourceError, MachineHasDisconnectedSubregion)
    from rig.routing_table import (routing_tree_to_tables, minimise_tables,
                                   MinimisationFailedError, Routes)
    from rig.routing_table.remove_default_routes import minimise as rde
    from rig.routing_table.ordered_covering import minimise as oc
    Cores_ = Cores
    if cfg["radius"] == 0:
        # the caller's own name for the core resource (route() takes it as
        # core_resource; nothing may fall back on the built-in Cores)
        Cores = "app_cores"
    machine = m.to_rig(chip_resources={Cores: CAP})
    # a device vertex needs no cores: declared with no resources at all or
    # (configurations with radius 1) with an explicit zero
    dev_res = {Cores: 0} if cfg["radius"] == 1 else {}
    vr = {v: ({Cores: n} if n else ({} if n is None else dict(dev_res)))
          for v, n in graph["v"].items()}
    nets, net_keys = build_problem(graph, cfg["keys"])
    cons = [ReserveResourceConstraint(Cores, slice(0, 1))]
    endpoint_of = {}
    for v, n in graph["v"].items():
        if n == 0:
            # device vertex: pinned where it is placed, packets leave on a
            # link that does not work (peripheral)
            chip = pl[v]
            link = case["_endpoint_link"][v]
            cons.append(LocationConstraint(v, chip))
            cons.append(RouteEndpointConstraint(v, Routes(link)))
            endpoint_of[v] = link
    saved = geometry.random, rutils.random
    geometry.random = rutils.random = FakeRandom(ch, menu=3)
    acc.evaluations += 1
    try:
        try:
            al = allocate_fn(vr, nets, machine, cons, pl)
            if Cores is Cores_:
                routes = ner.route(vr, nets, machine, cons, pl, al,
                                   radius=cfg["radius"])
            else:
                routes = ner.route(vr, nets, machine, cons, pl, al,
                                   core_resource=Cores, radius=cfg["radius"])
        finally:
            geometry.random, rutils.random = saved
        tables = routing_tree_to_tables(routes, net_keys)
        lengths = {c: len(t) for c, t in tables.items()}
        methods = {"rde": (rde,), "oc": (oc,), "default": (rde, oc)}[
            cfg["methods"]]
        final = minimise_tables(tables, cfg["target"], methods)
    except MachineHasDisconnectedSubregion as e:
        acc.outcome("disconnected")
        if case["_connected"]:
            acc.violation(dict(kind="spurious_disconnected"), case,
                          "route raised %s on a strongly connected machine\n"
                          "  %s" % (e, describe(case)), size=csize(case))
        return
    except MinimisationFailedError as e:
        acc.outcome("minimisation_failed")
        t = cfg["target"]
        if t is None or all(n <= t for n in lengths.values()):
            acc.violation(dict(kind="spurious_minimisation_failure"), case,
                          "MinimisationFailedError (%s) with target %r and "
                          "table lengths %r\n  %s" % (e, t, lengths,
                                                      describe(case)),
                          size=csize(case))
        return
    except Exception as e:
        acc.violation(dict(kind="exception", exc=type(e).__name__), case,
                      "pipeline raised %s: %s\n  %s"
                      % (type(e).__name__, e, describe(case)),
                      size=csize(case))
        return
    acc.outcome("tables")
    t = cfg["target"]
    if t is not None and any(len(tb) > t for tb in final.values()):
        acc.violation(dict(kind="target_missed"), case,
                      "tables of lengths %r for target %r"
                      % ({c: len(tb) for c, tb in final.items()}, t),
                      size=csize(case))
    check_tables(acc, case, final, m, nets, net_keys, pl, al, endpoint_of,
                 Cores, cfg["keys"] == "dc")


CONFIGS_Q = [
    dict(radius=20, methods="default", target=None, keys="full"),
    dict(radius=0, methods="oc", target=None, keys="dc"),
    dict(radius=1, methods="rde", target=None, keys="full"),
    dict(radius=20, methods="default", target=1, keys="dc"),
    dict(radius=0, methods="default", target=1023, keys="full"),
    dict(radius=20, methods="oc", target=0, keys="full"),
    dict(radius=1, methods="default", target=2, keys="dc"),
]


def configs(tier):
    if tier == "quick":
        return CONFIGS_Q
    out = []
    for r in (0, 1, 20):
        for meth in ("rde", "oc", "default"):
            for t in (None, 0, 1, 2, 1023):
                out.append(dict(radius=r, methods=meth, target=t,
                                keys="dc" if (r + len(meth)) % 2 else "full"))
    return out


def part_A(params, tier, acc):
    gi = params["graph"]
    graph = (GRAPHS + GRAPHS4)[gi]
    bound = scope(tier)["tiebreak_bound"]
    mi = -1
    for (w, h, dcs, dls) in machine_variants(params["machine"],
                                             params["mesh"], tier):
        mi += 1
        if "vk" in params and mi % 4 != params["vk"]:
            continue
        n_extra = len(dls) - len(base_links(w, h, params["mesh"]))
        if gi >= len(GRAPHS) and (n_extra and w * h > 4 or
                                  (dcs and w * h > 6)):
            # the four-vertex graphs (thorough): link faults only on <= 4
            # chips, 3x3 fault-free only
            continue
        m = M(w, h, dcs, dls)
        connected = m.strongly_connected()
        chips = m.chips
        # device vertices: every chip that has a non-working link to use as
        # the endpoint (peripheral links do not answer liveness probes)
        devs = [v for v, n in graph["v"].items() if n == 0]
        dev_opts = [None]
        if devs:
            dev_opts = []
            for c in chips:
                for l in range(6):
                    if not m.link_ok(c, l):
                        dev_opts.append((c, l))
                        break
            if not dev_opts:
                continue          # no peripheral link on this machine
            dev_opts = dev_opts[:2]
        for dev in dev_opts:
            pinned = {}
            eplink = {}
            if dev:
                pinned[devs[0]] = dev[0]
                eplink[devs[0]] = dev[1]
            for pi, pl in enumerate(feasible_placements(graph["v"], chips,
                                                        pinned)):
                cfgs = configs(tier)
                # every placement meets every configuration in thorough; in
                # quick the configurations rotate over placements
                if tier == "quick":
                    cfgs = [cfgs[(pi + mi) % len(cfgs)],
                            cfgs[(pi + mi + 3) % len(cfgs)]]
                elif n_extra or dcs or gi >= len(GRAPHS):
                    # thorough: all 45 configurations on fault-free machines,
                    # nine (rotating) per placement on faulty ones (five when
                    # two links are dead) and for the four-vertex graphs
                    ncf = 5 if n_extra >= 2 else 9
                    cfgs = [cfgs[(pi * ncf + mi + j * 5) % len(cfgs)]
                            for j in range(ncf)]
                for cfg in cfgs:
                    case = dict(w=w, h=h, dead_chips=[list(c) for c in dcs],
                                dead_links=[list(l) for l in dls],
                                graph=gi, placement={v: list(c) for v, c in
                                                     pl.items()},
                                cfg=cfg, _connected=connected,
                                _endpoint_link=eplink)
                    if any(pl[s] != pl[t] for s, ts in graph["nets"]
                           for t in ts):
                        acc.nontrivial += 1

                    def run(ch, case=case, cfg=cfg, pl=pl):
                        c2 = dict(case, choices=list(ch.choices))
                        run_pipeline(case, acc, m, graph, pl, cfg, tier, ch)
                    explore(run, bound=bound if (w * h <= 4 and
                                                 n_extra <= 1) else 0,
                            budget=400)
        if mi % 25 == 0:
            acc.sample(dict(part="A", machine=[w, h], dead_chips=dcs,
                            dead_links=dls[-2:], graph=gi))


# ------------------------------------------------------------------ part B
def system_info_for(m, busy_extra, rtr_free):
    from rig.machine_control.machine_controller import SystemInfo, ChipInfo
    from rig.machine_control.consts import AppState
    from rig.links import Links
    si = SystemInfo(m.w, m.h)
    for c in m.chips:
        states = [AppState.run] + [AppState.idle] * (CAP + 1)
        for p in busy_extra.get(c, []):
            states[p] = AppState.run
        si[c] = ChipInfo(
            num_cores=CAP + 2, core_states=states,
            working_links=set(Links(l) for l in range(6)
                              if (c[0], c[1], l) not in m.dead_links),
            largest_free_rtr_mc_block=rtr_free)
    return si


def placer_fn(name):
    from rig.place_and_route.place import sequential, breadth_first, \
        hilbert, rcm, rand
    from rig.place_and_route.place.sa import algorithm as sa
    from rig.place_and_route.place.sa.python_kernel import PythonKernel
    if name == "sa":
        return sa.place, dict(random=_random.Random(1), effort=0.2)
    if name == "sa_python":
        return sa.place, dict(random=_random.Random(2), effort=0.2,
                              kernel=PythonKernel)
    if name == "rand":
        return rand.place, dict(random=_random.Random(3))
    return {"hilbert": hilbert.place, "rcm": rcm.place,
            "breadth_first": breadth_first.place,
            "sequential": sequential.place}[name], {}


def part_B(params, tier, acc):
    import warnings
    from rig.place_and_route import Cores, SDRAM
    from rig.place_and_route.wrapper import place_and_route_wrapper, wrapper
    from rig.place_and_route.constraints import (LocationConstraint,
                                                 RouteEndpointConstraint)
    from rig.place_and_route.exceptions import (
        InsufficientResourceError, MachineHasDisconnectedSubregion)
    from rig.routing_table import MinimisationFailedError, Routes
    from rig.machine_control.consts import AppState
    pname = params["placer"]
    for (w, h) in ((2, 2), (3, 2), (3, 3)):
        for mesh in (False, True):
            base = sorted(wrap_links(w, h)) if mesh else []
            for dead in ([], [(w - 1, h - 1)], [(1, 0)]):
                for dl in ([], [(0, 0, 0)], [(0, 0, 0), (1, 0, 3)]):
                    m = M(w, h, dead, base + dl)
                    if not m.strongly_connected():
                        continue
                    for gi, graph in enumerate(GRAPHS + GRAPHS4):
                        for busy in ({}, {m.chips[0]: [1]},
                                     {c: [2] for c in m.chips}):
                            for rtr in (1023, 1):
                                run_wrapper(acc, pname, m, gi, graph, busy,
                                            rtr, dead, base + dl)
    acc.sample(dict(part="B", placer=pname))


def run_wrapper(acc, pname, m, gi, graph, busy, rtr, dead, dls):
    import warnings
    from rig.place_and_route import Cores, SDRAM
    from rig.place_and_route.wrapper import place_and_route_wrapper, wrapper
    from rig.place_and_route.constraints import (LocationConstraint,
                                                 RouteEndpointConstraint)
    from rig.place_and_route.exceptions import (
        InsufficientResourceError, MachineHasDisconnectedSubregion)
    from rig.routing_table import MinimisationFailedError, Routes
    from rig.machine_control.consts import AppState
    from rig.place_and_route.constraints import SameChipConstraint
    variants = ["plain"]
    if rtr == 1023 and gi % 3 == 0:
        variants.append("cres")
    if rtr == 1023 and any(n == 0 for n in graph["v"].values()):
        variants.append("same")
    if gi % 3 == 1 and not busy:
        variants.append("methods")
    for variant in variants:
        _run_wrapper(acc, pname, m, gi, graph, busy, rtr, dead, dls, variant)


def _run_wrapper(acc, pname, m, gi, graph, busy, rtr, dead, dls, variant):
    import warnings
    from rig.place_and_route import Cores, SDRAM
    from rig.place_and_route.wrapper import place_and_route_wrapper, wrapper
    from rig.place_and_route.constraints import (LocationConstraint,
                                                 RouteEndpointConstraint,
                                                 SameChipConstraint)
    from rig.place_and_route.exceptions import (
        InsufficientResourceError, MachineHasDisconnectedSubregion)
    from rig.routing_table import MinimisationFailedError, Routes
    from rig.machine_control.consts import AppState
    xkw = {}
    if variant == "cres":
        # the caller's own core resource
        Cores = "app_cores"
        xkw = dict(core_resource=Cores)
    nkw = {}
    if variant == "methods":
        # the caller's own choice of minimisers (new wrapper only)
        from rig.routing_table.remove_default_routes import minimise as rde
        from rig.routing_table.ordered_covering import minimise as oc
        nkw = dict(minimise_tables_methods=((oc,) if gi % 2 else (rde,)))
    si = system_info_for(m, busy, rtr)
    vr = {v: ({Cores: n} if n else {}) for v, n in graph["v"].items()}
    va = {v: "app_%s.aplx" % v for v in graph["v"] if graph["v"][v]}
    nets, net_keys = build_problem(graph, "dc" if gi % 2 else "full")
    cons = []
    endpoint_of = {}
    for v, n in graph["v"].items():
        if n == 0:
            # a peripheral sits on a link that does not work as a chip-to-
            # chip link; machines without such a link cannot host one
            spot = [(c, l) for c in reversed(m.chips) for l in range(6)
                    if not m.link_ok(c, l)]
            if not spot:
                return
            chip, link = spot[0]
            cons.append(LocationConstraint(v, chip))
            cons.append(RouteEndpointConstraint(v, Routes(link)))
            endpoint_of[v] = link
            if variant == "same":
                # the device shares its chip with the vertex that drives it
                drv = [s_ for s_, t in graph["nets"] if v in t and s_ != v]
                cons.append(SameChipConstraint([v, drv[0]]))
    place, kw = placer_fn(pname)
    for which in ("new", "old"):
        case = dict(part="B", placer=pname, w=m.w, h=m.h, variant=variant,
                    dead_chips=[list(c) for c in dead],
                    dead_links=[list(l) for l in dls], graph=gi,
                    busy={"%d,%d" % c: v for c, v in busy.items()},
                    rtr=rtr, wrapper=which)
        acc.evaluations += 1
        acc.nontrivial += 1
        try:
            with warnings.catch_warnings():
                warnings.simplefilter("ignore")
                if which == "new":
                    pl, al, amap, tables = place_and_route_wrapper(
                        vr, va, nets, net_keys, si, list(cons), place=place,
                        place_kwargs=dict(kw), **dict(xkw, **nkw))
                else:
                    if busy:
                        continue
                    machine = m.to_rig(chip_resources={Cores: CAP + 2,
                                                       SDRAM: 1000})
                    pl, al, amap, tables = wrapper(
                        vr, va, nets, net_keys, machine, list(cons),
                        place=place, place_kwargs=dict(kw), **xkw)
        except MinimisationFailedError:
            acc.outcome("minimisation_failed")
            if rtr >= 1023 or which == "old":
                acc.violation(dict(kind="spurious_minimisation_failure"),
                              case, "wrapper raised MinimisationFailedError "
                              "with %d free entries" % rtr)
            continue
        except InsufficientResourceError:
            acc.outcome("insufficient")
            continue
        except Exception as e:
            acc.violation(dict(kind="exception", exc=type(e).__name__,
                               wrapper=which), case,
                          "%s wrapper with placer %s raised %s: %s\n  %s"
                          % (which, pname, type(e).__name__, e,
                             describe(case)))
            continue
        acc.outcome("wrapped")
        # nothing on a busy core / dead chip
        for v, res in al.items():
            sl = res.get(Cores)
            chip = tuple(pl[v])
            if chip not in m.alive:
                acc.violation(dict(kind="placed_on_dead_chip"), case,
                              "vertex %r placed on %r" % (v, chip))
            if sl is not None and which == "new":
                for c in range(sl.start, sl.stop):
                    if si[chip].core_states[c] != AppState.idle:
                        acc.violation(dict(kind="busy_core_allocated"), case,
                                      "vertex %r got busy core %d of %r"
                                      % (v, c, chip))
        # application map
        for v, app in va.items():
            sl = al[v].get(Cores)
            got = amap.get(app, {}).get(tuple(pl[v]), set())
            if set(range(sl.start, sl.stop)) - set(got):
                acc.violation(dict(kind="application_map"), case,
                              "application map lacks cores of %r" % v)
        if which == "new" and any(len(t) > rtr for t in tables.values()):
            acc.violation(dict(kind="target_missed"), case,
                          "tables longer than the %d free entries" % rtr)
        check_tables(acc, case, tables, m, nets, net_keys, pl, al,
                     endpoint_of, Cores, gi % 2 == 1)


def part_sim(params, tier, acc):
    """The new wrapper fed with a SystemInfo probed from a SimMachine."""
    from mc.ctl import Session
    from mc.sim import SimMachine, ST_RUN
    from mc.runner import REPO
    from rig.place_and_route import Cores
    from rig.place_and_route.wrapper import place_and_route_wrapper
    for dead in ([], [(1, 1)], [(2, 0)]):
        sim = SimMachine(REPO, 3, 2, dead=set(dead))
        for (x, y), c in sim.chips.items():
            c.num_cpus = CAP + 2
            c.core_state = [ST_RUN] + [15] * 17
            if (x + y) % 2:
                c.core_state[1] = ST_RUN
            c.links = set(range(6)) - ({0} if (x, y) == (0, 0) else set())
            # links towards dead chips are reported down
            for l in range(6):
                vx, vy = VEC[l]
                if ((x + vx) % 3, (y + vy) % 2) in set(dead):
                    c.links.discard(l)
        sim.full_sync_chips = {(0, 0)}
        with Session(sim) as s:
            si = s.mc.get_system_info()
        dls = [(x, y, l) for (x, y), c in sim.chips.items()
               for l in range(6) if l not in c.links]
        m = M(3, 2, dead, dls)
        if not m.strongly_connected():
            continue
        for gi, graph in enumerate(GRAPHS):
            vr = {v: ({Cores: n} if n else {}) for v, n in
                  graph["v"].items()}
            if any(n == 0 for n in graph["v"].values()):
                continue
            va = {v: "x.aplx" for v in graph["v"] if graph["v"][v]}
            nets, net_keys = build_problem(graph, "full")
            case = dict(part="sim", dead=[list(d) for d in dead], graph=gi)
            acc.evaluations += 1
            acc.nontrivial += 1
            try:
                pl, al, amap, tables = place_and_route_wrapper(
                    vr, va, nets, net_keys, si)
            except Exception as e:
                acc.violation(dict(kind="exception", exc=type(e).__name__),
                              case, "wrapper on probed machine raised %r" % e)
                continue
            for v, res in al.items():
                sl = res.get(Cores)
                chip = tuple(pl[v])
                if sl is None:
                    continue        # a vertex that needs no cores
                for c in range(sl.start, sl.stop):
                    if sim.chips[chip].core_state[c] != 15:
                        acc.violation(dict(kind="busy_core_allocated"), case,
                                      "vertex %r got busy core %d of %r"
                                      % (v, c, chip))
            check_tables(acc, case, tables, m, nets, net_keys, pl, al, {},
                         Cores, False)
    acc.sample(dict(part="sim"))


MANY_KEYS = {4: [0, 1, 2, 3], 6: [2, 3, 6, 9, 14, 15],
             "6b": [3, 11, 6, 7, 2, 1]}


def many_graph(n, pattern):
    """n nets from a, net i goes to b or c (bit i of pattern)."""
    nn = 6 if n == "6b" else n
    nets = [("a", ["c" if pattern & (1 << i) else "b"]) for i in range(nn)]
    return dict(v={"a": 1, "b": 1, "c": 1}, nets=nets, keys=MANY_KEYS[n])


def part_many(params, tier, acc):
    """Many nets through one chip: merges next to default-routable entries."""
    k = params["k"]
    i = -1
    cfgs = [dict(radius=20, methods="default", target=None),
            dict(radius=20, methods="oc", target=None),
            dict(radius=0, methods="default", target=2),
            dict(radius=20, methods="rde", target=None)]
    for (w, h, mesh) in ((3, 1, False), (3, 1, True), (2, 2, False),
                         (3, 2, True)):
        m = M(w, h, [], sorted(wrap_links(w, h)) if mesh else [])
        for n in (4, 6, "6b"):
            for pattern in range(2 ** (6 if n == "6b" else n)):
                i += 1
                if i % 16 != k:
                    continue
                graph = many_graph(n, pattern)
                for pl in feasible_placements(graph["v"], m.chips, {}):
                    if len(set(pl.values())) < 2:
                        continue
                    for cfg in cfgs:
                        case = dict(w=w, h=h, dead_chips=[],
                                    dead_links=[list(l) for l in
                                                sorted(m.dead_links)],
                                    many=[n, pattern],
                                    placement={v: list(c) for v, c in
                                               pl.items()},
                                    cfg=dict(cfg, keys="many"),
                                    _connected=True, _endpoint_link={})
                        acc.nontrivial += 1
                        run_pipeline(case, acc, m, graph, pl,
                                     dict(cfg, keys="many"), tier, Chooser())
    acc.sample(dict(part="many", k=k))


def run_shard(params, tier, acc):
    if params["part"] == "many":
        part_many(params, tier, acc)
    elif params["part"] == "A":
        part_A(params, tier, acc)
    elif params["part"] == "B":
        part_B(params, tier, acc)
    else:
        part_sim(params, tier, acc)


def replay(case, acc):
    if case.get("part") == "B":
        m = M(case["w"], case["h"], case["dead_chips"], case["dead_links"])
        busy = {tuple(int(i) for i in k.split(",")): v
                for k, v in case["busy"].items()}
        gi = case["graph"]
        run_wrapper(acc, case["placer"], m, gi, (GRAPHS + GRAPHS4)[gi], busy,
                    case["rtr"], [tuple(c) for c in case["dead_chips"]],
                    [tuple(l) for l in case["dead_links"]])
        return
    if case.get("part") == "sim":
        part_sim({}, "quick", acc)
        return
    m = M(case["w"], case["h"], case["dead_chips"], case["dead_links"])
    if "many" in case:
        graph = many_graph(*case["many"])
    else:
        graph = (GRAPHS + GRAPHS4)[case["graph"]]
    pl = {v: tuple(c) for v, c in case["placement"].items()}
    c2 = dict(case)
    c2["_connected"] = m.strongly_connected()
    c2.setdefault("_endpoint_link", {})
    if any(n == 0 for n in graph["v"].values()) and not c2["_endpoint_link"]:
        for v, n in graph["v"].items():
            if n == 0:
                c2["_endpoint_link"][v] = next(
                    (l for l in range(6) if not m.link_ok(pl[v], l)), 3)
    # the tie-break stream is the default one (bound 0) unless recorded
    run_pipeline(c2, acc, m, graph, pl, case["cfg"], "quick",
                 Chooser(case.get("choices") or []))


def selftest():
    from rig.routing_table import RoutingTableEntry, Routes
    m = M(2, 1)
    t = {(0, 0): [RoutingTableEntry({Routes.east}, 1, 0xffffffff)],
         (1, 0): [RoutingTableEntry({Routes.core(2)}, 1, 0xffffffff)]}
    err, dl, ex = walk_packet(t, m, (0, 0), 1, set())
    assert err is None and dl == [((1, 0), 2)]
    # default routing: no entry on (1,0): continues east, wraps to (0,0)
    t2 = {(0, 0): [RoutingTableEntry({Routes.east}, 1, 0xffffffff)]}
    err, dl, ex = walk_packet(t2, m, (0, 0), 1, set())
    assert err is not None            # circulates
    err, dl, ex = walk_packet({}, m, (0, 0), 1, set())
    assert "dropped" in err
