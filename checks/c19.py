"""C19 - SpiNN-5 board geometry functions agree with the board tiling.

E3, complete over the stated sizes: an independent description of the tiling
(a board is the 48-chip hexagon 0<=x,y<=7, -3<=x-y<=4 hanging off its Ethernet
chip; Ethernet chips sit at (0,0),(4,8),(8,4) + 12Z^2, shifted by the root
chip) decides, for every chip of every machine size and every root offset,
what the geometry functions must return."""
import itertools

PROPERTY = "C19"
LEVEL = "exploration"
TECHNIQUE = ("complete enumeration of chips x machine sizes x root offsets "
             "x links x board counts against an independent board-tile model")
RULE = ("W,H in {12,24,36} x all 144 root offsets x every chip; ragged sizes "
        "for chips whose board lies inside; every (chip, link) of a 24x24 "
        "machine for FPGA links; board counts 0..3000. Every case is "
        "distinct by construction and non-trivial")
ASSUMPTIONS = ["tiling of SpiNN-5 boards as documented (three boards per "
               "12x12 cell)"]

ETH = ((0, 0), (4, 8), (8, 4))
VEC = {0: (1, 0), 1: (1, 1), 2: (0, 1), 3: (-1, 0), 4: (-1, -1), 5: (0, -1)}


def on_board(dx, dy):
    return 0 <= dx <= 7 and 0 <= dy <= 7 and -3 <= dx - dy <= 4


def tile(x, y, W, H, rx, ry):
    """-> (eth chip, on-board coordinate) from the tiling alone (W, H
    multiples of 12, torus)."""
    found = []
    for i in range(W // 12):
        for j in range(H // 12):
            for ox, oy in ETH:
                ex = (rx + ox + 12 * i) % W
                ey = (ry + oy + 12 * j) % H
                dx = (x - ex) % W
                dy = (y - ey) % H
                if on_board(dx, dy):
                    found.append(((ex, ey), (dx, dy)))
    assert len(found) == 1, (x, y, W, H, rx, ry, found)
    return found[0]


def selftest():
    assert sum(on_board(x, y) for x in range(8) for y in range(8)) == 48
    assert tile(0, 0, 12, 12, 0, 0) == ((0, 0), (0, 0))
    e, c = tile(5, 0, 12, 12, 0, 0)
    assert e == (8, 4) and c == (9 - 0, 8) or on_board(*c)
    # every chip of a 12x12 cell belongs to exactly one board (assert inside)
    for x in range(12):
        for y in range(12):
            tile(x, y, 12, 12, 0, 0)


def scope(tier):
    return dict(sizes=[12, 24, 36] if tier == "quick" else [12, 24, 36, 48, 60,
                                                            96],
                roots="all 144", ragged=[[8, 8], [16, 16], [20, 12],
                                         [28, 16]],
                board_counts=3000 if tier == "quick" else 200000)


def shards(tier):
    sz = scope(tier)["sizes"]
    out = [dict(part="tile", W=W, H=H, k=k) for W in sz for H in sz
           for k in range(4)]
    out += [dict(part="ragged"), dict(part="fpga"), dict(part="dims"),
            dict(part="history"), dict(part="bigroot")]
    return out


def part_tile(W, H, k, acc):
    from rig import geometry as g
    for rx in range(12):
        if rx % 4 != k:
            continue
        for ry in range(12):
            want_eth = set()
            for x in range(W):
                for y in range(H):
                    acc.evaluations += 1
                    acc.nontrivial += 1
                    e, c = tile(x, y, W, H, rx, ry)
                    case = dict(part="tile", W=W, H=H, root=[rx, ry],
                                chip=[x, y])
                    try:
                        ge = tuple(g.spinn5_local_eth_coord(x, y, W, H, rx, ry))
                        gc = tuple(g.spinn5_chip_coord(x, y, rx, ry))
                    except Exception as ex:
                        ge = gc = repr(ex)
                    if ge != e:
                        acc.violation(
                            dict(kind="local_eth"), case,
                            "spinn5_local_eth_coord(%d,%d,%d,%d,%d,%d) = %r; "
                            "the board containing the chip has its Ethernet "
                            "chip at %r" % (x, y, W, H, rx, ry, ge, e),
                            size=W * H)
                    if gc != c:
                        acc.violation(
                            dict(kind="chip_coord"), case,
                            "spinn5_chip_coord(%d,%d,%d,%d) = %r, offset from "
                            "its board's Ethernet chip is %r"
                            % (x, y, rx, ry, gc, c), size=W * H)
                    if c == (0, 0):
                        want_eth.add((x, y))
                    acc.outcome("board_offset_%d_%d" % ((e[0] - rx) % 12,
                                                        (e[1] - ry) % 12))
            acc.evaluations += 1
            try:
                got = list(g.spinn5_eth_coords(W, H, rx, ry))
            except Exception as ex:
                got = [repr(ex)]
            if set(got) != want_eth or len(got) != len(set(got)):
                acc.violation(
                    dict(kind="eth_coords"),
                    dict(part="tile", W=W, H=H, root=[rx, ry], chip=None),
                    "spinn5_eth_coords(%d,%d,%d,%d) = %r, Ethernet chips of "
                    "the tiling: %r" % (W, H, rx, ry, sorted(got),
                                        sorted(want_eth)), size=W * H)
    acc.sample(dict(part="tile", W=W, H=H, roots_x=[r for r in range(12)
                                                    if r % 4 == k]))


RAGGED = [[8, 8], [16, 16], [20, 12], [28, 16], [12, 16], [13, 1], [1, 13],
          [12, 8], [8, 12], [24, 20]]
RAGGED_ROOTS = [(rx, ry) for rx in (0, 4, 5, 8) for ry in (0, 3, 4, 8, 11)]


BIG_ROOTS = [(8, 16), (4, 20), (16, 8), (20, 4), (12, 12), (13, 17),
             (23, 23), (12, 0), (0, 12)]


def part_bigroot(acc):
    """Root chips beyond the first 12x12 cell (any chip of the machine may be
    the one the system was booted from): the tiling only depends on the root
    modulo 12."""
    from rig import geometry as g
    for W, H in ((24, 24), (36, 24), (24, 36)):
        for rx, ry in BIG_ROOTS:
            if rx >= W or ry >= H:
                continue
            want_eth = set()
            for x in range(W):
                for y in range(H):
                    acc.evaluations += 1
                    acc.nontrivial += 1
                    e, c = tile(x, y, W, H, rx % 12, ry % 12)
                    if c == (0, 0):
                        want_eth.add((x, y))
                    try:
                        ge = tuple(g.spinn5_local_eth_coord(x, y, W, H, rx,
                                                            ry))
                        gc = tuple(g.spinn5_chip_coord(x, y, rx, ry))
                    except Exception as ex:
                        ge = gc = repr(ex)
                    if ge != e or gc != c:
                        acc.violation(
                            dict(kind="bigroot_chip"),
                            dict(part="bigroot", W=W, H=H, root=[rx, ry],
                                 chip=[x, y]),
                            "root (%d,%d) on %dx%d: chip (%d,%d) -> local "
                            "Ethernet chip %r / board coordinate %r, tiling "
                            "gives %r / %r" % (rx, ry, W, H, x, y, ge, gc, e,
                                               c), size=W * H)
                        break
            try:
                got = list(g.spinn5_eth_coords(W, H, rx, ry))
            except Exception as ex:
                got = [repr(ex)]
            if set(got) != want_eth or len(got) != len(set(got)):
                acc.violation(
                    dict(kind="bigroot_eth_coords"),
                    dict(part="bigroot", W=W, H=H, root=[rx, ry]),
                    "spinn5_eth_coords(%d,%d,%d,%d) = %r, Ethernet chips of "
                    "the tiling: %r" % (W, H, rx, ry, sorted(got),
                                        sorted(want_eth)), size=W * H)
    acc.sample(dict(part="bigroot", roots=BIG_ROOTS))


def part_ragged(acc):
    """Machines that are not whole numbers of 12x12 cells: a window of the
    rounded-up torus.  The Ethernet list must be exactly the tiling's
    Ethernet chips that fall inside the window, for every root offset."""
    from rig import geometry as g
    for w, h in RAGGED:
        W = ((w + 11) // 12) * 12
        H = ((h + 11) // 12) * 12
        for rx, ry in RAGGED_ROOTS:
            inside = set()
            for x in range(w):
                for y in range(h):
                    e, c = tile(x, y, W, H, rx, ry)
                    if c == (0, 0):
                        inside.add((x, y))
            acc.evaluations += 1
            acc.nontrivial += 1
            try:
                first = g.spinn5_eth_coords(w, h, rx, ry)
                got = list(first)
                if isinstance(first, list):
                    # whatever was handed out belongs to the caller
                    del first[:]
            except Exception as ex:
                got = [repr(ex)]
            try:
                # asking again must give the same list again
                again = list(g.spinn5_eth_coords(w, h, rx, ry))
            except Exception as ex:
                again = [repr(ex)]
            if sorted(again) != sorted(got):
                acc.violation(dict(kind="eth_coords_repeat"),
                              dict(part="ragged", w=w, h=h, root=[rx, ry]),
                              "spinn5_eth_coords(%d,%d,%d,%d) gave %r the "
                              "first time and %r the second"
                              % (w, h, rx, ry, sorted(got), sorted(again)))
            # chips whose whole board lies inside the machine (no wrapping):
            # local Ethernet chip and board coordinate for this root
            for x in range(w):
                for y in range(h):
                    e, c = tile(x, y, W, H, rx, ry)
                    if not (e[0] + 7 < w and e[1] + 7 < h and e[0] <= x and
                            e[1] <= y):
                        continue
                    acc.evaluations += 1
                    try:
                        ge = tuple(g.spinn5_local_eth_coord(x, y, w, h, rx,
                                                            ry))
                        gc = tuple(g.spinn5_chip_coord(x, y, rx, ry))
                    except Exception as ex:
                        ge = gc = repr(ex)
                    if ge != e or gc != c:
                        acc.violation(
                            dict(kind="ragged_chip_root"),
                            dict(part="ragged", w=w, h=h, root=[rx, ry],
                                 chip=[x, y]),
                            "%dx%d machine rooted at (%d,%d): chip (%d,%d) "
                            "-> local Ethernet chip %r, board coordinate %r; "
                            "its board (wholly inside the machine) has its "
                            "Ethernet chip at %r, offset %r"
                            % (w, h, rx, ry, x, y, ge, gc, e, c))
                        break
            if set(got) != inside or len(got) != len(set(got)):
                acc.violation(dict(kind="eth_coords_ragged"),
                              dict(part="ragged", w=w, h=h, root=[rx, ry]),
                              "spinn5_eth_coords(%d,%d,%d,%d) = %r, Ethernet "
                              "chips of the tiling inside the machine: %r"
                              % (w, h, rx, ry, sorted(got), sorted(inside)))
        for x in range(w):
            for y in range(h):
                e, c = tile(x, y, W, H, 0, 0)
                # whole board inside the rectangle, no wrapping
                if not (e[0] + 7 < w and e[1] + 7 < h and e[0] <= x and
                        e[1] <= y):
                    continue
                acc.evaluations += 1
                acc.nontrivial += 1
                ge = tuple(g.spinn5_local_eth_coord(x, y, w, h))
                gc = tuple(g.spinn5_chip_coord(x, y))
                if ge != e or gc != c:
                    acc.violation(dict(kind="ragged_chip"),
                                  dict(part="ragged", w=w, h=h, chip=[x, y]),
                                  "ragged %dx%d chip (%d,%d): eth %r coord %r,"
                                  " expected %r %r" % (w, h, x, y, ge, gc, e,
                                                       c))
    acc.sample(dict(part="ragged", sizes=RAGGED, roots=len(RAGGED_ROOTS)))


def part_history(acc):
    """The same chips queried for different machine sizes and roots one
    after another in one process (answers must not depend on earlier
    queries)."""
    from rig import geometry as g
    from rig.links import Links
    sizes = [(12, 12), (24, 24), (24, 12), (12, 36), (36, 36)]
    roots = [(0, 0), (4, 8), (5, 7)]
    chips = [(0, 4), (11, 11), (0, 0), (5, 0), (3, 7), (8, 3), (11, 0)]
    queries = [(s_, r, c) for s_ in sizes for r in roots for c in chips]
    for order in (queries, queries[::-1], queries[::3] + queries[1::3] +
                  queries[2::3]):
        for (W, H), (rx, ry), (x, y) in order:
            acc.evaluations += 1
            acc.nontrivial += 1
            e, c = tile(x, y, W, H, rx, ry)
            ge = tuple(g.spinn5_local_eth_coord(x, y, W, H, rx, ry))
            gc = tuple(g.spinn5_chip_coord(x, y, rx, ry))
            gl = [g.spinn5_fpga_link(x, y, Links(l), rx, ry)
                  for l in range(6)]
            wl = [g.SPINN5_FPGA_LINKS.get((c[0], c[1], Links(l)))
                  for l in range(6)]
            if ge != e or gc != c or gl != wl:
                acc.violation(dict(kind="history_dependent"),
                              dict(part="history"),
                              "after earlier queries, chip (%d,%d) in %dx%d "
                              "root %r: eth %r coord %r, expected %r %r"
                              % (x, y, W, H, (rx, ry), ge, gc, e, c))
                return
    acc.sample(dict(part="history", queries=len(queries)))


def part_fpga(acc):
    from rig import geometry as g
    from rig.links import Links
    # on-board table: a link passes through an FPGA iff it leaves the board
    seen = {}
    for x in range(8):
        for y in range(8):
            if not on_board(x, y):
                continue
            for l in range(6):
                acc.evaluations += 1
                acc.nontrivial += 1
                dx, dy = VEC[l]
                leaves = not on_board(x + dx, y + dy)
                got = g.spinn5_fpga_link(x, y, Links(l))
                case = dict(part="fpga", chip=[x, y], link=l)
                acc.outcome("fpga_link" if leaves else "internal_link")
                if (got is not None) != leaves:
                    acc.violation(
                        dict(kind="fpga_presence"), case,
                        "spinn5_fpga_link(%d,%d,%s) = %r but the link %s the "
                        "board" % (x, y, Links(l).name, got,
                                   "leaves" if leaves else "stays on"))
                if got is not None:
                    ok = (len(got) == 2 and got[0] in (0, 1, 2) and
                          0 <= got[1] <= 15)
                    if not ok or tuple(got) in seen:
                        acc.violation(
                            dict(kind="fpga_distinct"), case,
                            "FPGA link %r of (%d,%d,%s) invalid or already "
                            "used by %r" % (got, x, y, Links(l).name,
                                            seen.get(tuple(got))))
                    seen[tuple(got)] = (x, y, l)
    if len(seen) != 48:
        acc.violation(dict(kind="fpga_count"), dict(part="fpga", chip=None),
                      "%d distinct FPGA links, a board has 48 edge links"
                      % len(seen))
    # through machine coordinates and root offsets
    W = H = 24
    for rx, ry in ((0, 0), (5, 7), (11, 1)):
        for x in range(W):
            for y in range(H):
                e, c = tile(x, y, W, H, rx, ry)
                for l in range(6):
                    acc.evaluations += 1
                    acc.nontrivial += 1
                    dx, dy = VEC[l]
                    e2, _ = tile((x + dx) % W, (y + dy) % H, W, H, rx, ry)
                    got = g.spinn5_fpga_link(x, y, Links(l), rx, ry)
                    want = g.SPINN5_FPGA_LINKS.get((c[0], c[1], Links(l)))
                    if (got is not None) != (e2 != e) or got != want:
                        acc.violation(
                            dict(kind="fpga_machine"),
                            dict(part="fpga", chip=[x, y], link=l,
                                 root=[rx, ry]),
                            "spinn5_fpga_link(%d,%d,%s,root=%r) = %r; "
                            "neighbour is on %s board"
                            % (x, y, Links(l).name, (rx, ry), got,
                               "another" if e2 != e else "the same"))
    acc.sample(dict(part="fpga", distinct=len(seen)))


def part_dims(tier, acc):
    from rig import geometry as g
    n_max = scope(tier)["board_counts"]
    for n in range(0, n_max + 1):
        acc.evaluations += 1
        acc.nontrivial += 1
        case = dict(part="dims", n=n)
        try:
            r = g.standard_system_dimensions(n)
        except ValueError:
            r = "ValueError"
        except Exception as e:
            r = repr(e)
        if n == 0:
            want = (0, 0)
        elif n == 1:
            want = (8, 8)
        elif n % 3:
            want = "ValueError"
        else:
            t = n // 3
            hh = max(d for d in range(1, int(t ** 0.5) + 2)
                     if t % d == 0 and d * d <= t)
            want = (t // hh * 12, hh * 12)
        if r != want:
            acc.violation(dict(kind="dims"), case,
                          "standard_system_dimensions(%d) = %r, squarest "
                          "arrangement of triads is %r" % (n, r, want),
                          size=n)
    acc.sample(dict(part="dims", n_max=n_max))


def run_shard(params, tier, acc):
    p = params["part"]
    if p == "tile":
        part_tile(params["W"], params["H"], params["k"], acc)
    elif p == "ragged":
        part_ragged(acc)
    elif p == "fpga":
        part_fpga(acc)
    elif p == "history":
        part_history(acc)
    elif p == "bigroot":
        part_bigroot(acc)
    else:
        part_dims(tier, acc)


def replay(case, acc):
    p = case["part"]
    if p == "tile":
        part_tile(case["W"], case["H"], case["root"][0] % 4, acc)
    elif p == "ragged":
        part_ragged(acc)
    elif p == "fpga":
        part_fpga(acc)
    elif p == "history":
        part_history(acc)
    elif p == "bigroot":
        part_bigroot(acc)
    else:
        part_dims("quick", acc)
