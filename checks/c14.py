"""C14 - probed system description and derived machine model match the
machine.

E3 over machine states of the simulated machine, observed through the real
get_system_info / get_chip_info / get_p2p_routing_table /
get_processor_status / get_iobuf / get_router_diagnostics /
get_software_version and then build_machine / build_core_constraints /
build_routing_table_target_lengths; every returned field is compared with the
simulated state."""
import itertools
import struct

from mc.ctl import Session
from mc.sim import SimMachine, structs, RTR_DIAG, ST_IDLE, ST_RUN, ST_WAIT

PROPERTY = "C14"
LEVEL = "exploration"
TECHNIQUE = ("bounded-exhaustive enumeration of simulated machine states "
             "(sizes, dead/unresponsive chips, links, core counts and states, "
             "free-memory figures, console buffers, versions) observed "
             "through the real probing functions, field-by-field comparison")
RULE = ("one dimension varied completely at a time around a base state, plus "
        "the products dead-chip subsets x core-state patterns x sizes and "
        "link patterns x dead chips. Every case is a distinct machine state; "
        "non-trivial when the machine has >1 chip or a non-default pattern")
ASSUMPTIONS = [
    "SimMachine encodes the chip-information reply, point-to-point table "
    "packing, per-core status block and console-buffer chaining as described "
    "by the controller's docstrings",
    "the chip the connection is attached to responds (otherwise nothing can "
    "be probed)",
]

SIZES = [(1, 1), (2, 2), (3, 2), (1, 9), (9, 1), (2, 17)]
CORE_PATTERNS = ["all_idle", "monitor", "monitor_plus5", "chip_specific",
                 "adjacent_runs", "last_core", "global5_local2",
                 "everything_busy", "alternate", "disjoint", "first_idle",
                 "last_idle", "dead_cores"]
LINK_PATTERNS = ["all", "none", "asym"] + ["only%d" % i for i in range(6)]


def repo():
    from mc.runner import REPO as R
    return R


def scope(tier):
    return dict(sizes=SIZES, core_patterns=CORE_PATTERNS,
                link_patterns=LINK_PATTERNS, core_counts=[1, 16, 17, 18],
                figures=[0, 1, "max"], p2p_addressing=[None, [8, 8]])


def shards(tier):
    out = []
    for si in range(len(SIZES)):
        for cp in CORE_PATTERNS:
            out.append(dict(part="dead_x_cores", size=si, cores=cp))
    out += [dict(part="links"), dict(part="counts_figures"),
            dict(part="eth_version"), dict(part="status_iobuf"),
            dict(part="p2p")]
    return out


def core_states(pattern, x, y, n):
    st = [ST_IDLE] * 18
    if pattern == "disjoint":
        # no core is busy on every chip
        st[1 + (x + 2 * y) % 3] = ST_RUN
        if (x + y) % 2:
            st[5] = ST_WAIT
        return st
    if pattern in ("first_idle", "last_idle"):
        idle_one = (0, 0) if pattern == "first_idle" else None
        if (x, y) == idle_one or (pattern == "last_idle" and x + y >= 2):
            return st
        for p in (0, 2, 3):
            st[p] = ST_RUN
        return st
    if pattern != "all_idle":
        st[0] = ST_RUN
    if pattern == "monitor_plus5":
        st[5] = ST_RUN
    elif pattern == "chip_specific":
        st[1 + (x + 2 * y) % 16] = ST_WAIT
    elif pattern == "adjacent_runs":
        for p in (3, 4, 5, 9, 10):
            st[p] = ST_RUN
        st[(x + y) % 3 + 11] = 11
    elif pattern == "last_core":
        st[max(n - 1, 0)] = ST_RUN
    elif pattern == "global5_local2":
        st[5] = ST_RUN
        if (x + y) % 2 == 1:
            st[2] = ST_RUN
        if x == 0 and y == 0:
            st[7] = 2
    elif pattern == "dead_cores":
        # AppState.dead (0) is a state like any other non-idle one
        st[3] = 0
        if (x + y) % 2 == 0:
            st[6 + x] = 0
    elif pattern == "everything_busy":
        st = [ST_RUN] * 18
    elif pattern == "alternate":
        for p in range(1, 18, 2):
            st[p] = ST_WAIT if (p + x) % 4 else ST_RUN
    return st


def links_for(pattern, x, y):
    if pattern == "all":
        return set(range(6))
    if pattern == "none":
        return set()
    if pattern == "asym":
        return set(l for l in range(6) if (x + 2 * y + l) % 3)
    return {int(pattern[4:])}


def make_sim(cfg):
    w, h = cfg["size"]
    dead = set(map(tuple, cfg.get("dead", [])))
    sim = SimMachine(repo(), w, h, dead=dead,
                     buffer_size=cfg.get("buffer", 256),
                     version=cfg.get("version", 133),
                     version_string=cfg.get("vstring",
                                            "SC&MP/SpiNNaker\0").encode())
    if cfg.get("p2p_dims"):
        sim.p2p_w, sim.p2p_h = cfg["p2p_dims"]
    for (x, y), c in sim.chips.items():
        c.num_cpus = cfg.get("num_cpus", 18) if not cfg.get(
            "mixed_counts") else [18, 17, 16, 1][(x + y) % 4]
        c.core_state = core_states(cfg.get("cores", "monitor"), x, y,
                                   c.num_cpus)
        c.links = links_for(cfg.get("links", "all"), x, y)
        sd = cfg.get("sdram", "max")
        c.sdram_free = {0: 0, 1: 1, "max": 0x07000000 - (x + y)}[sd]
        sr = cfg.get("sram", "max")
        c.sram_free = {0: 0, 1: 1, "max": 0x5000 + x}[sr]
        rt = cfg.get("rtr", "max")
        if rt == 0:
            c.router = [(1, 1, 1, 1)] * 1024
        elif rt == 1:
            c.router = [(1, 1, 1, 1)] * 1024
            c.router[600 + x] = None
        elif rt == "empty":
            # nothing allocated at all: a free block of all 1024 entries
            c.router = [None] * 1024
        elif rt == "frag":
            c.router = [None if (i % 5 and i) else (1, 1, 1, 1)
                        for i in range(1024)]
        c.eth_up = (x, y) in map(tuple, cfg.get("eth", [[0, 0]]))
        ipb = cfg.get("ip", [10, 0, 255, 1])
        c.ip = (ipb[0], ipb[1], ipb[2], (ipb[3] + x) & 0xff)
        c.local_eth = (0, 0) if not cfg.get("local_eth") else \
            tuple(cfg["local_eth"])
    for xy in map(tuple, cfg.get("unresponsive", [])):
        if xy in sim.chips:
            sim.chips[xy].responsive = False
    return sim


def expected_chip(c):
    n = c.num_cpus
    return dict(num_cores=n, core_states=list(c.core_state[:n]),
                working_links=set(c.links),
                largest_free_sdram_block=c.sdram_free,
                largest_free_sram_block=c.sram_free,
                largest_free_rtr_mc_block=min(c.largest_free_router_block(),
                                              0x7ff),
                ethernet_up=c.eth_up,
                ip_address="%d.%d.%d.%d" % c.ip,
                local_ethernet_chip=tuple(c.local_eth))


def judge(cfg, acc):
    from rig.place_and_route.utils import build_machine, \
        build_core_constraints
    from rig.routing_table import build_routing_table_target_lengths
    from rig.place_and_route import Cores, SDRAM, SRAM
    from rig.links import Links
    sim = make_sim(cfg)
    acc.evaluations += 1
    if len(sim.chips) > 1 or cfg.get("cores", "monitor") != "monitor":
        acc.nontrivial += 1

    def bad(kind, msg, **extra):
        sig = dict(kind=kind)
        sig.update(extra)
        acc.violation(sig, cfg, msg + "\n  machine: %r" % (cfg,),
                      size=len(sim.chips))
    sim.full_sync_chips = {(0, 0)}
    with Session(sim) as s:
        try:
            si = s.mc.get_system_info()
        except Exception as e:
            bad("exception", "get_system_info raised %s: %s"
                % (type(e).__name__, e), exc=type(e).__name__)
            return
        live = {xy: c for xy, c in sim.chips.items()
                if c.responsive and xy not in sim.p2p_none}
        listed = [xy for xy in sim.chips if xy not in sim.p2p_none]
        w = max(x for x, y in listed) + 1
        h = max(y for x, y in listed) + 1
        if (si.width, si.height) != (w, h):
            bad("dimensions", "SystemInfo is %dx%d, chips listed in the "
                "point-to-point table span %dx%d" % (si.width, si.height, w,
                                                     h))
            return
        if set(si) != set(live):
            bad("chip_set", "SystemInfo has chips %r, responding chips are %r"
                % (sorted(si), sorted(live)))
            return
        for xy, c in live.items():
            exp = expected_chip(c)
            got = si[xy]
            for k, v in exp.items():
                g = getattr(got, k)
                if k == "core_states":
                    g = [int(x) for x in g]
                if k == "working_links":
                    g = set(int(x) for x in g)
                if g != v:
                    bad("chip_info", "chip %r: %s = %r, machine has %r"
                        % (xy, k, g, v), field=k)
                    return
        acc.outcome("chips=%d" % min(len(live), 10))
        # ---- membership queries on the description itself
        for xy, c in live.items():
            for l in range(6):
                if ((xy[0], xy[1], Links(l)) in si) != (l in c.links):
                    bad("systeminfo_contains", "(%d, %d, %r) in system_info "
                        "is %r, the chip reports the link %s"
                        % (xy[0], xy[1], Links(l),
                           (xy[0], xy[1], Links(l)) in si,
                           "up" if l in c.links else "down"))
                    return
            for p_ in range(19):
                if ((xy[0], xy[1], p_) in si) != (p_ < c.num_cpus):
                    bad("systeminfo_contains", "(%d, %d, %d) in system_info "
                        "is %r, the chip has %d cores"
                        % (xy[0], xy[1], p_, (xy[0], xy[1], p_) in si,
                           c.num_cpus))
                    return
        for xy in sim.chips:
            if (xy in si) != (xy in live):
                bad("systeminfo_contains", "%r in system_info is %r"
                    % (xy, xy in si))
                return
        # ---- derived machine model
        try:
            m = build_machine(si)
            cons = build_core_constraints(si)
            tl = build_routing_table_target_lengths(si)
        except Exception as e:
            bad("exception", "building the machine model raised %s: %s"
                % (type(e).__name__, e), exc=type(e).__name__)
            return
        if (m.width, m.height) != (w, h) or set(m) != set(live):
            bad("machine_chips", "Machine %dx%d has chips %r, live chips are "
                "%r" % (m.width, m.height, sorted(m), sorted(live)))
            return
        for xy, c in live.items():
            res = m[xy]
            if (res[Cores], res[SDRAM], res[SRAM]) != (
                    c.num_cpus, c.sdram_free, c.sram_free):
                bad("machine_resources", "Machine chip %r has %r, machine "
                    "has cores=%d sdram=%d sram=%d"
                    % (xy, dict(res), c.num_cpus, c.sdram_free, c.sram_free))
                return
            for l in range(6):
                if ((xy[0], xy[1], Links(l)) in m) != (l in c.links):
                    bad("machine_links", "Machine says link %d of %r is %s, "
                        "machine reports %s"
                        % (l, xy, "working" if (xy[0], xy[1], Links(l)) in m
                           else "dead", "up" if l in c.links else "down"))
                    return
        want_tl = {xy: min(c.largest_free_router_block(), 0x7ff)
                   for xy, c in live.items()}
        if dict(tl) != want_tl:
            bad("target_lengths", "target lengths %r, free router blocks %r"
                % (dict(tl), want_tl))
        for xy, c in live.items():
            busy = set(p for p in range(c.num_cpus)
                       if c.core_state[p] != ST_IDLE)
            cover = []
            for k in cons:
                if k.resource is not Cores:
                    bad("constraint_resource", "reservation on %r"
                        % (k.resource,))
                    return
                if k.location is None or tuple(k.location) == xy:
                    cover.append((k.reservation.start, k.reservation.stop))
            cells = []
            for a, b in cover:
                cells += list(range(a, b))
            inside = [p for p in cells if p < c.num_cpus]
            if len(set(cells)) != len(cells):
                bad("reservations_overlap", "chip %r: reservations %r "
                    "overlap" % (xy, sorted(cover)))
                return
            if set(inside) != busy:
                bad("reservations_cover", "chip %r: reserved cores %r but "
                    "non-idle cores are %r" % (xy, sorted(set(inside)),
                                               sorted(busy)))
                return
            if any(a < 0 or b > 18 for a, b in cover):
                bad("reservations_range", "chip %r: reservation outside the "
                    "core range: %r" % (xy, cover))
                return
        # ---- the model under resource names of the caller's choosing
        try:
            mm = build_machine(si, core_resource="c", sdram_resource="sd",
                               sram_resource="sr")
            cc = build_core_constraints(si, core_resource="c")
        except Exception as e:
            bad("exception", "building the model with custom resource names "
                "raised %s: %s" % (type(e).__name__, e),
                exc=type(e).__name__)
            return
        for xy in live:
            if sorted(mm[xy].items(), key=repr) != sorted(
                    [("c", m[xy][Cores]), ("sd", m[xy][SDRAM]),
                     ("sr", m[xy][SRAM])], key=repr):
                bad("custom_resource_names", "chip %r: %r with custom "
                    "resource names, %r with the built-in ones"
                    % (xy, dict(mm[xy]), dict(m[xy])))
                return
        if set(mm) != set(m) or set(mm.dead_links) != set(m.dead_links) or \
                sorted((repr(k.location), k.reservation.start,
                        k.reservation.stop) for k in cc) != sorted(
                (repr(k.location), k.reservation.start, k.reservation.stop)
                for k in cons) or any(k.resource != "c" for k in cc):
            bad("custom_resource_names", "machine / core reservations differ "
                "when the caller names the resources")
            return
        # ---- the single-purpose probes and the one-call machine model
        if len(sim.chips) <= 6:
            import warnings
            try:
                for xy, c in sorted(live.items())[:3]:
                    wl = s.mc.get_working_links(*xy)
                    nc = s.mc.get_num_working_cores(*xy)
                    if set(int(l) for l in wl) != set(c.links) or \
                            nc != c.num_cpus:
                        bad("single_probe", "chip %r: get_working_links %r, "
                            "get_num_working_cores %r; the chip has links %r "
                            "and %d cores" % (xy, sorted(int(l) for l in wl),
                                              nc, sorted(c.links),
                                              c.num_cpus))
                        return
                with warnings.catch_warnings():
                    warnings.simplefilter("ignore")
                    m2 = s.mc.get_machine()
            except Exception as e:
                bad("exception", "single probes / get_machine raised %s: %s"
                    % (type(e).__name__, e), exc=type(e).__name__)
                return
            if (m2.width, m2.height) != (w, h) or set(m2) != set(live) or \
                    any(dict(m2[xy]) != dict(m[xy]) for xy in live) or \
                    set(m2.dead_links) != set(m.dead_links):
                bad("get_machine", "get_machine() gives %r, the model built "
                    "from the description is %r" % (m2, m))
                return
        edited_description(si, live, w, h, bad)


def edited_description(si, live, w, h, bad):
    """The description is a dictionary the caller may edit (remove a chip
    that must not be used, put it back, replace an entry): every later query
    and every machine model built later describe the dictionary as it is
    then."""
    from rig.place_and_route.utils import build_machine
    from rig.place_and_route import Cores
    from rig.links import Links

    def agree(stage):
        try:
            m = build_machine(si)
            dead = set(si.dead_chips())
            chips = set(si.chips())
        except Exception as e:
            bad("exception", "%s: %s: %s" % (stage, type(e).__name__, e),
                exc=type(e).__name__)
            return False
        allc = set((x, y) for x in range(w) for y in range(h))
        if chips != set(si) or dead != allc - set(si):
            bad("description_stale", "%s: chips() gives %r, dead_chips() "
                "gives %r, the description holds %r"
                % (stage, sorted(chips), sorted(dead), sorted(si)))
            return False
        if set(m) != set(si):
            bad("machine_stale", "%s: Machine has chips %r, the description "
                "holds %r" % (stage, sorted(m), sorted(si)))
            return False
        for xy in si:
            if m[xy][Cores] != si[xy].num_cores:
                bad("machine_stale", "%s: Machine chip %r has %d cores, the "
                    "description says %d" % (stage, xy, m[xy][Cores],
                                             si[xy].num_cores))
                return False
            for l in Links:
                if ((xy[0], xy[1], l) in m) != (l in si[xy].working_links):
                    bad("machine_stale", "%s: link %r of %r" % (stage, l, xy))
                    return False
        return True
    victims = sorted(xy for xy in live if xy != (0, 0))
    if not victims:
        return
    v = victims[-1]
    # in place: one chip's set of links and list of core states are that
    # chip's own (another chip with the same pattern keeps its own)
    others = {xy: (set(si[xy].working_links), list(si[xy].core_states))
              for xy in si if xy != v}
    try:
        if isinstance(si[v].working_links, set) and si[v].working_links:
            si[v].working_links.discard(sorted(si[v].working_links)[0])
        if isinstance(si[v].core_states, list) and si[v].core_states:
            si[v].core_states[-1] = si[v].core_states[0]
    except Exception:
        pass
    for xy, (wl, cs) in others.items():
        if set(si[xy].working_links) != wl or list(si[xy].core_states) != cs:
            bad("description_aliased", "editing the entry of chip %r in "
                "place changed the entry of chip %r: links %r -> %r"
                % (v, xy, sorted(wl), sorted(si[xy].working_links)))
            return
    if not agree("after removing a link of chip %r in place" % (v,)):
        return
    old = si[v]
    del si[v]
    if not agree("after removing chip %r from the description" % (v,)):
        return
    si[v] = old._replace(num_cores=max(1, old.num_cores - 2),
                         core_states=list(old.core_states)[
                             :max(1, old.num_cores - 2)],
                         working_links=set(list(old.working_links)[:1]))
    if not agree("after putting chip %r back with fewer cores and links"
                 % (v,)):
        return
    if len(victims) > 1:
        del si[victims[0]]
        agree("after also removing chip %r" % (victims[0],))


def part_dead_x_cores(params, tier, acc):
    w, h = SIZES[params["size"]]
    chips = [(x, y) for x in range(w) for y in range(h) if (x, y) != (0, 0)]
    if len(chips) <= 5:
        subsets = [c for n in range(len(chips) + 1)
                   for c in itertools.combinations(chips, n)]
    else:
        subsets = [()] + [(c,) for c in chips] + \
            [(chips[-1], chips[0]), (chips[-1], chips[-2], chips[-3]),
             tuple(chips[::2]), tuple(chips[1::2])]
    for dead in subsets:
        for unresp in [()] + [(c,) for c in chips if c not in dead][:3]:
            cfg = dict(size=[w, h], dead=[list(c) for c in dead],
                       unresponsive=[list(c) for c in unresp],
                       cores=params["cores"],
                       mixed_counts=(len(dead) % 2 == 1))
            judge(cfg, acc)
    acc.sample(dict(part="dead_x_cores", size=[w, h], cores=params["cores"],
                    dead_sets=len(subsets)))


def part_links(params, tier, acc):
    for lp in LINK_PATTERNS:
        for size in ((1, 1), (2, 2), (3, 2)):
            for dead in ([], [[1, 1]], [[1, 0], [0, 1]]):
                dead = [d for d in dead if d[0] < size[0] and d[1] < size[1]]
                judge(dict(size=list(size), dead=dead, links=lp), acc)
    # every subset of links on a single chip
    for mask in range(64):
        cfg = dict(size=[1, 1], links="mask%d" % mask)
        sim_links = set(l for l in range(6) if mask & (1 << l))
        global links_for
        orig = links_for

        def lf(pattern, x, y, orig=orig, sim_links=sim_links):
            return sim_links if pattern.startswith("mask") else orig(pattern,
                                                                     x, y)
        links_for = lf
        try:
            judge(cfg, acc)
        finally:
            links_for = orig
    acc.sample(dict(part="links", patterns=LINK_PATTERNS))


def part_counts_figures(params, tier, acc):
    for n in (1, 2, 16, 17, 18):
        for cp in CORE_PATTERNS:
            judge(dict(size=[2, 2], num_cpus=n, cores=cp), acc)
    for sd, sr, rt in itertools.product((0, 1, "max"), (0, 1, "max"),
                                        (0, 1, "max", "frag", "empty")):
        judge(dict(size=[2, 1], sdram=sd, sram=sr, rtr=rt), acc)
        # chips that tie on two of the three figures and differ in the third
        judge(dict(size=[3, 2], sdram=sd, sram=sr, rtr=rt), acc)
    acc.sample(dict(part="counts_figures"))


def part_eth_version(params, tier, acc):
    for eth in ([], [[0, 0]], [[0, 0], [1, 1]]):
        for ip in ([0, 0, 0, 0], [1, 2, 3, 4], [255, 255, 255, 254],
                   [10, 0, 255, 1]):
            for le in (None, [0, 0], [255, 255], [4, 8]):
                judge(dict(size=[2, 2], eth=eth, ip=ip, local_eth=le), acc)
    # software version in both encodings
    from rig.machine_control.machine_controller import CoreInfo  # noqa
    cases = [
        (133, "SC&MP/SpiNNaker\0", "SC&MP/SpiNNaker", (1, 33, 0), ""),
        (200, "SC&MP/SpiNNaker\0", "SC&MP/SpiNNaker", (2, 0, 0), ""),
        (9, "SARK/SpiNNaker\0", "SARK/SpiNNaker", (0, 9, 0), ""),
        (0xffff, "SC&MP/SpiNNaker\0" "2.1.0\0", "SC&MP/SpiNNaker",
         (2, 1, 0), ""),
        (0xffff, "SC&MP/SpiNNaker\0" "10.20.30-dev\0", "SC&MP/SpiNNaker",
         (10, 20, 30), "-dev"),
        (0xffff, "BC&MP/Spin5-BMP\0" "3.0.1+build7\0\0\0", "BC&MP/Spin5-BMP",
         (3, 0, 1), "+build7"),
    ]
    for ver, vs, name, vt, labels in cases:
        for buf in (256, 128, 1):
            cfg = dict(size=[2, 2], version=ver, vstring=vs, buffer=buf)
            sim = make_sim(cfg)
            acc.evaluations += 1
            acc.nontrivial += 1
            with Session(sim) as s:
                for (x, y, p) in ((255, 255, 0), (1, 1, 0), (1, 0, 3)):
                    try:
                        ci = s.mc.get_software_version(x, y, p)
                    except Exception as e:
                        acc.violation(dict(kind="exception",
                                           exc=type(e).__name__), cfg,
                                      "get_software_version raised %r" % e)
                        continue
                    pos = (0, 0) if x == 255 else (x, y)
                    want = (pos, (p + 3) % 18, p, vt, buf, sim.build_date,
                            name, labels)
                    got = (tuple(ci.position), ci.physical_cpu, ci.virt_cpu,
                           tuple(ci.software_version), ci.buffer_size,
                           ci.build_date, ci.version_string,
                           ci.software_version_labels)
                    if got != want:
                        acc.violation(dict(kind="software_version"), cfg,
                                      "get_software_version(%d,%d,%d) = %r, "
                                      "machine runs %r" % (x, y, p, got,
                                                           want))
    acc.sample(dict(part="eth_version", versions=len(cases)))


def part_status_iobuf(params, tier, acc):
    st = structs(repo())["vcpu"]
    for blocks in ([], [0], [5], [64], [64, 64, 23], [64, 0, 1], [1, 64]):
        for p in (0, 1, 17):
            for chip in ((0, 0), (1, 1)):
                cfg = dict(size=[2, 2], iobuf_blocks=blocks, p=p,
                           chip=list(chip))
                sim = make_sim(cfg)
                c = sim.chips[chip]
                acc.evaluations += 1
                acc.nontrivial += 1
                # fill the whole vcpu block with known valid values
                vals = {}
                for i, (fname, (fmt, off, dflt, length)) in enumerate(
                        sorted(st["fields"].items())):
                    if fmt.endswith("s"):
                        v = b"app%d" % p
                    elif fname == "rt_code":
                        v = (p + 3) % 21
                    elif fname == "cpu_state":
                        v = [ST_RUN, ST_WAIT, 11][p % 3]
                    elif fname == "__PAD":
                        continue
                    else:
                        v = (0x1000 * (i + 1) + p * 7 + chip[0]) & \
                            {"B": 0xff, "b": 0x7f, "H": 0xffff,
                             "I": 0xffffffff}[fmt]
                    vals[fname] = v
                # console buffer chain
                addr = 0x60300000
                text = b""
                ptr = 0
                chain = []
                for j, n in enumerate(blocks):
                    chain.append((addr + j * 0x100, n))
                for j, (a, n) in enumerate(chain):
                    nxt = chain[j + 1][0] if j + 1 < len(chain) else 0
                    data = bytes(((65 + (j * 7 + k) % 26)) for k in range(n))
                    text += data
                    body = data + b"\xee" * (c.iobuf_size - n)
                    c.mem.write(a, struct.pack("<4I", nxt, 1, 2, n) + body)
                vals["iobuf"] = chain[0][0] if chain else 0
                sim.full_sync = False
                with Session(sim) as s:
                    for fname, v in vals.items():
                        c.put_field("vcpu", fname, v, p)
                    try:
                        ps = s.mc.get_processor_status(p, chip[0], chip[1])
                        io = s.mc.get_iobuf_bytes(p, chip[0], chip[1])
                        io2 = s.mc.get_iobuf(p, chip[0], chip[1])
                    except Exception as e:
                        acc.violation(dict(kind="exception",
                                           exc=type(e).__name__), cfg,
                                      "status/iobuf raised %s: %s"
                                      % (type(e).__name__, e))
                        continue
                    want = dict(
                        registers=[vals["r%d" % i] for i in range(8)],
                        program_state_register=vals["psr"],
                        stack_pointer=vals["sp"], link_register=vals["lr"],
                        rt_code=vals["rt_code"], phys_cpu=vals["phys_cpu"],
                        cpu_state=vals["cpu_state"],
                        mbox_ap_msg=vals["mbox_ap_msg"],
                        mbox_mp_msg=vals["mbox_mp_msg"],
                        mbox_ap_cmd=vals["mbox_ap_cmd"],
                        mbox_mp_cmd=vals["mbox_mp_cmd"],
                        sw_count=vals["sw_count"], sw_file=vals["sw_file"],
                        sw_line=vals["sw_line"], time=vals["time"],
                        app_name=vals["app_name"].decode(),
                        iobuf_address=vals["iobuf"], app_id=vals["app_id"],
                        version=((vals["sw_ver"] >> 16) & 0xff,
                                 (vals["sw_ver"] >> 8) & 0xff,
                                 vals["sw_ver"] & 0xff),
                        user_vars=[vals["user%d" % i] for i in range(4)])
                    for k, v in want.items():
                        g = getattr(ps, k)
                        if k in ("rt_code", "cpu_state"):
                            g = int(g)
                        if k in ("registers", "user_vars"):
                            g = list(g)
                        if k == "version":
                            g = tuple(g)
                        if g != v:
                            acc.violation(
                                dict(kind="processor_status", field=k), cfg,
                                "core %d of %r: %s = %r, memory holds %r"
                                % (p, chip, k, g, v))
                            break
                    if io != text or io2 != text.decode():
                        acc.violation(dict(kind="iobuf"), cfg,
                                      "console buffer of %d blocks %r read "
                                      "as %d bytes, machine holds %d"
                                      % (len(blocks), blocks, len(io),
                                         len(text)))
        acc.sample(dict(part="status_iobuf", blocks=blocks))
    # one controller visiting several chips and cores in sequence (system
    # areas live at different addresses on different chips)
    sim = make_sim(dict(size=[3, 2]))
    sim.full_sync = False
    expect = {}
    for (x, y), c in sim.chips.items():
        for p in (1, 2):
            txt = ("chip%d%d core%d " % (x, y, p)).encode() * (1 + p)
            a = 0x60400000 + 0x1000 * p
            c.mem.write(a, struct.pack("<4I", 0, 0, 0, len(txt)) + txt)
            expect[(x, y, p)] = (a, txt, 100 * x + 10 * y + p)
    with Session(sim, budget=20000) as s:
        for (x, y, p), (a, txt, uid) in expect.items():
            c = sim.chips[(x, y)]
            c.put_field("vcpu", "iobuf", a, p)
            c.put_field("vcpu", "app_id", uid & 0xff, p)
            c.put_field("vcpu", "rt_code", 0, p)
            c.put_field("vcpu", "cpu_state", ST_RUN, p)
        for order in (sorted(expect), sorted(expect, reverse=True)):
            for (x, y, p) in order:
                a, txt, uid = expect[(x, y, p)]
                acc.evaluations += 1
                acc.nontrivial += 1
                case = dict(size=[3, 2], tour=True)
                try:
                    io = s.mc.get_iobuf_bytes(p, x, y)
                    aid = s.mc.read_vcpu_struct_field("app_id", x, y, p)
                    ps = s.mc.get_processor_status(p, x, y)
                except Exception as e:
                    acc.violation(dict(kind="exception",
                                       exc=type(e).__name__), case,
                                  "tour raised %s: %s" % (type(e).__name__, e))
                    continue
                if io != txt or aid != (uid & 0xff) or \
                        ps.app_id != (uid & 0xff) or ps.iobuf_address != a:
                    acc.violation(dict(kind="tour"), case,
                                  "visiting chip (%d,%d) core %d after other "
                                  "chips: console %r, app id %r / %r, "
                                  "expected %r, %r"
                                  % (x, y, p, io[:20], aid, ps.app_id,
                                     txt[:20], uid & 0xff))
                    break
    # router diagnostics
    sim = make_sim(dict(size=[2, 2]))
    for words in ([(i * 0x01010101 + 7) & 0xffffffff for i in range(16)],
                  [0xffffffff - i for i in range(16)],
                  [(0x80000000 >> (i % 3)) + i for i in range(16)],
                  [0] * 16):
        sim.chips[(1, 1)].mem.write(RTR_DIAG, struct.pack("<16I", *words))
        with Session(sim) as s:
            acc.evaluations += 1
            rd = s.mc.get_router_diagnostics(1, 1)
            names = ["local_multicast", "external_multicast", "local_p2p",
                     "external_p2p", "local_nearest_neighbour",
                     "external_nearest_neighbour", "local_fixed_route",
                     "external_fixed_route", "dropped_multicast", "dropped_p2p",
                     "dropped_nearest_neighbour", "dropped_fixed_route",
                     "counter12", "counter13", "counter14", "counter15"]
            got = [getattr(rd, n) for n in names]
            if got != words:
                acc.violation(dict(kind="router_diagnostics"),
                              dict(size=[2, 2], diag=True),
                              "router counters %r, registers hold %r" % (got,
                                                                         words))


def part_p2p(params, tier, acc):
    """Point-to-point table decoding and addressing larger than the box."""
    for (w, h), dims in (((2, 2), None), ((3, 2), (8, 8)), ((1, 9), (1, 9)),
                         ((2, 17), (2, 17)), ((6, 5), (8, 8)),
                         ((2, 2), (16, 16)), ((3, 3), (255, 1)),
                         ((1, 3), (1, 255))):
        for dead in ([], [[w - 1, 0]], [[0, h - 1]], [[w - 1, h - 1]],
                     [[w - 1, 0], [0, h - 1]]):
            dead = [d for d in dead if tuple(d) != (0, 0)]
            cfg = dict(size=[w, h], dead=dead, p2p_dims=list(dims) if dims
                       else None)
            sim = make_sim(cfg)
            acc.evaluations += 1
            acc.nontrivial += 1
            with Session(sim) as s:
                try:
                    t = s.mc.get_p2p_routing_table(0, 0)
                except Exception as e:
                    acc.violation(dict(kind="exception",
                                       exc=type(e).__name__), cfg,
                                  "get_p2p_routing_table raised %r" % e)
                    continue
                want = {(c, r): sim.p2p_entry(sim.chips[(0, 0)], c, r)
                        for c in range(sim.p2p_w) for r in range(sim.p2p_h)}
                got = {k: int(v) for k, v in t.items()}
                if got != want:
                    diff = [k for k in want if got.get(k) != want[k]][:3]
                    acc.violation(dict(kind="p2p_table"), cfg,
                                  "point-to-point table differs at %r: %r vs "
                                  "%r" % (diff, [got.get(k) for k in diff],
                                          [want[k] for k in diff]))
            if w * h <= 40 and (dims is None or dims[0] * dims[1] <= 64):
                judge(cfg, acc)
    acc.sample(dict(part="p2p"))


def run_shard(params, tier, acc):
    globals()["part_" + params["part"]](params, tier, acc)


def replay(case, acc):
    if "iobuf_blocks" in case or case.get("diag") or case.get("tour"):
        part_status_iobuf({}, "quick", acc)
    elif "vstring" in case:
        part_eth_version({}, "quick", acc)
    elif str(case.get("links", "")).startswith("mask"):
        part_links({}, "quick", acc)
    else:
        judge(case, acc)
        if case.get("p2p_dims"):
            part_p2p({}, "quick", acc)


def selftest():
    assert core_states("monitor", 0, 0, 18)[0] == ST_RUN
    assert links_for("only3", 0, 0) == {3}
