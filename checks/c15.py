"""C15 - SDP and SCP packets encode to the wire layout and decode back.

E3, field-wise complete: every header field over its full width against three
backgrounds of the other fields, all 256 (port, core) bytes, every argument
presence pattern, payload lengths 0..16 and 255, decoding with every n_args of
byte strings of every length, compared with an encoder/decoder written from
the documented layout."""
import itertools
import struct

PROPERTY = "C15"
LEVEL = "exploration"
TECHNIQUE = ("field-wise complete enumeration of packet fields against an "
             "independently written wire-layout encoder/decoder")
RULE = ("each header field takes every value of its width while all other "
        "fields sit at one of three backgrounds (zeros, all-ones, 1010..); "
        "arguments over a boundary alphabet x presence patterns; payload "
        "lengths 0..16,255; decode x n_args 0..3 x data lengths 0..20. Every "
        "case is distinct by construction and counts as non-trivial")
ASSUMPTIONS = ["wire layout as documented in the property statement and the "
               "SpiNNaker datagram protocol (little-endian words)"]

FIELDS8 = ["tag", "dest_x", "dest_y", "src_x", "src_y"]
ARGV = [0, 1, 2 ** 31, 2 ** 32 - 1, 0xa5a5a5a5]


def scope(tier):
    return dict(full_width_fields=FIELDS8 + ["dest port/core byte",
                                             "src port/core byte", "cmd_rc",
                                             "seq"],
                pairwise=(tier != "quick"))


def shards(tier):
    out = [dict(part="bytes"), dict(part="portcpu"), dict(part="args"),
           dict(part="decode"), dict(part="history"), dict(part="decseq")]
    out += [dict(part="cmd", k=k) for k in range(4)]
    out += [dict(part="seq", k=k) for k in range(4)]
    if tier != "quick":
        out += [dict(part="pairs", k=k) for k in range(16)]
    return out


BACKGROUNDS = [
    dict(reply_expected=False, tag=0, dest_port=0, dest_cpu=0, src_port=0,
         src_cpu=0, dest_x=0, dest_y=0, src_x=0, src_y=0, cmd_rc=0, seq=0,
         arg1=0, arg2=0, arg3=0, data=b""),
    dict(reply_expected=True, tag=255, dest_port=7, dest_cpu=31, src_port=7,
         src_cpu=31, dest_x=255, dest_y=255, src_x=255, src_y=255,
         cmd_rc=0xffff, seq=0xffff, arg1=2 ** 32 - 1, arg2=2 ** 32 - 1,
         arg3=2 ** 32 - 1, data=b"\xff" * 5),
    dict(reply_expected=True, tag=0xaa, dest_port=5, dest_cpu=0x0a,
         src_port=2, src_cpu=0x15, dest_x=0xaa, dest_y=0x55, src_x=0x5a,
         src_y=0xa5, cmd_rc=0xaaaa, seq=0x5555, arg1=0xaaaaaaaa,
         arg2=0x55555555, arg3=0xa5a5a5a5, data=b"\x01\x02\x03"),
]


def ref_encode(f, scp):
    """Wire layout written from the documentation."""
    out = bytearray(b"\x00\x00")
    out.append(0x87 if f["reply_expected"] else 0x07)
    out.append(f["tag"])
    out.append(((f["dest_port"] & 7) << 5) | (f["dest_cpu"] & 31))
    out.append(((f["src_port"] & 7) << 5) | (f["src_cpu"] & 31))
    out += bytes([f["dest_y"], f["dest_x"], f["src_y"], f["src_x"]])
    if scp:
        out += f["cmd_rc"].to_bytes(2, "little")
        out += f["seq"].to_bytes(2, "little")
        for a in ("arg1", "arg2", "arg3"):
            if f[a] is not None:
                out += f[a].to_bytes(4, "little")
    out += f["data"]
    return bytes(out)


def ref_decode(b, scp, n_args):
    f = dict(reply_expected=(b[2] == 0x87), tag=b[3], dest_port=b[4] >> 5,
             dest_cpu=b[4] & 31, src_port=b[5] >> 5, src_cpu=b[5] & 31,
             dest_y=b[6], dest_x=b[7], src_y=b[8], src_x=b[9])
    rest = b[10:]
    if scp:
        f["cmd_rc"] = int.from_bytes(rest[0:2], "little")
        f["seq"] = int.from_bytes(rest[2:4], "little")
        rest = rest[4:]
        take = min(n_args, len(rest) // 4, 3)
        for i, a in enumerate(("arg1", "arg2", "arg3")):
            f[a] = (int.from_bytes(rest[4 * i:4 * i + 4], "little")
                    if i < take else None)
        rest = rest[4 * take:]
    f["data"] = rest
    return f


SDP_SLOTS = ["reply_expected", "tag", "dest_port", "dest_cpu", "src_port",
             "src_cpu", "dest_x", "dest_y", "src_x", "src_y", "data"]
SCP_SLOTS = SDP_SLOTS + ["cmd_rc", "seq", "arg1", "arg2", "arg3"]


def judge(f, scp, acc, what):
    from rig.machine_control.packets import SDPPacket, SCPPacket
    acc.evaluations += 1
    acc.nontrivial += 1
    cls = SCPPacket if scp else SDPPacket
    slots = SCP_SLOTS if scp else SDP_SLOTS
    kw = {k: f[k] for k in slots}
    case = dict(scp=scp, fields={k: (v.hex() if isinstance(v, bytes) else v)
                                 for k, v in kw.items()}, what=what)
    try:
        pkt = cls(**kw)
        wire = pkt.bytestring
    except Exception as e:
        acc.violation(dict(kind="encode_exception", field=what), case,
                      "encoding raised %s: %s" % (type(e).__name__, e))
        return
    want = ref_encode(f, scp)
    acc.outcome("wire_len=%d" % min(len(wire), 40))
    if wire != want:
        acc.violation(dict(kind="encode_layout", field=what), case,
                      "bytestring %s, documented layout %s"
                      % (wire.hex(), want.hex()))
        return
    n_args = sum(1 for a in ("arg1", "arg2", "arg3")
                 if scp and f[a] is not None)
    prefix = not scp or all(
        f[a] is not None for a in ("arg1", "arg2", "arg3")[:n_args])
    if not prefix:
        return
    try:
        back = (cls.from_bytestring(wire, n_args=n_args) if scp else
                cls.from_bytestring(wire))
    except Exception as e:
        acc.violation(dict(kind="decode_exception", field=what), case,
                      "decoding raised %s: %s" % (type(e).__name__, e))
        return
    for s in slots:
        exp = kw[s]
        if s in ("dest_port", "src_port"):
            exp &= 7
        if s in ("dest_cpu", "src_cpu"):
            exp &= 31
        got = getattr(back, s)
        if got != exp or type(got) is not type(exp) and s != "reply_expected":
            acc.violation(dict(kind="roundtrip", field=s), case,
                          "round trip changed %s: %r -> %r" % (s, exp, got))
            return


def part_bytes(acc):
    for bg in BACKGROUNDS:
        for fld in FIELDS8:
            for v in range(256):
                f = dict(bg)
                f[fld] = v
                judge(f, True, acc, fld)
                judge(f, False, acc, fld)
        for r in (False, True):
            f = dict(bg, reply_expected=r)
            judge(f, True, acc, "reply_expected")
        for n in list(range(17)) + [255]:
            f = dict(bg, data=bytes((i * 7 + 1) & 0xff for i in range(n)))
            judge(f, True, acc, "data")
            judge(f, False, acc, "data")
    acc.sample(dict(part="bytes", fields=FIELDS8))


def part_portcpu(acc):
    for bg in BACKGROUNDS:
        for port in range(8):
            for cpu in range(32):
                for side in ("dest", "src"):
                    f = dict(bg)
                    f[side + "_port"] = port
                    f[side + "_cpu"] = cpu
                    judge(f, True, acc, side + "_portcpu")
                    judge(f, False, acc, side + "_portcpu")
    acc.sample(dict(part="portcpu"))


def part_word16(acc, fld, k):
    for bg in BACKGROUNDS:
        for v in range(k * 16384, (k + 1) * 16384):
            f = dict(bg)
            f[fld] = v
            judge(f, True, acc, fld)
    acc.sample(dict(part=fld, range=[k * 16384, (k + 1) * 16384]))


def part_args(acc):
    for bg in BACKGROUNDS:
        for present in itertools.product((False, True), repeat=3):
            for vals in itertools.product(ARGV, repeat=3):
                f = dict(bg)
                for a, p, v in zip(("arg1", "arg2", "arg3"), present, vals):
                    f[a] = v if p else None
                for n in (0, 1, 3, 4, 5, 11, 12):
                    f["data"] = bytes(range(n))
                    judge(f, True, acc, "args")
    acc.sample(dict(part="args", values=ARGV))


def part_decode(acc):
    """Decode byte strings of every length with every n_args."""
    from rig.machine_control.packets import SCPPacket
    hdr = ref_encode(dict(BACKGROUNDS[2], arg1=None, arg2=None, arg3=None,
                          data=b""), True)
    for n in range(0, 21):
        body = bytes((0x10 + 3 * i) & 0xff for i in range(n))
        for n_args in range(0, 4):
            acc.evaluations += 1
            acc.nontrivial += 1
            wire = hdr + body
            want = ref_decode(wire, True, n_args)
            case = dict(scp=True, wire=wire.hex(), n_args=n_args,
                        what="decode")
            try:
                p = SCPPacket.from_bytestring(wire, n_args=n_args)
            except Exception as e:
                acc.violation(dict(kind="decode_exception", field="decode"),
                              case, "decoding %d data bytes with n_args=%d "
                              "raised %s: %s" % (n, n_args,
                                                 type(e).__name__, e))
                continue
            for s in SCP_SLOTS:
                if getattr(p, s) != want[s]:
                    acc.violation(
                        dict(kind="decode_args", field=s), case,
                        "decoding %d data bytes with n_args=%d: %s = %r, "
                        "expected %r" % (n, n_args, s, getattr(p, s),
                                         want[s]))
                    break
    acc.sample(dict(part="decode", lengths=[0, 20], n_args=[0, 3]))


def part_history(acc):
    """One packet object is encoded, modified and encoded again: every
    sequence of <=2 field assignments (from a menu covering every slot) on
    packets built directly and on packets obtained by decoding."""
    from rig.machine_control.packets import SCPPacket, SDPPacket
    menu = [("reply_expected", False), ("tag", 7), ("dest_port", 3),
            ("dest_cpu", 17), ("src_port", 1), ("src_cpu", 2),
            ("dest_x", 9), ("dest_y", 8), ("src_x", 4), ("src_y", 5),
            ("cmd_rc", 0x1234), ("seq", 0xfffe), ("arg1", 0xdeadbeef),
            ("arg2", None), ("arg3", 5), ("data", b"xyz")]
    for scp in (True, False):
        cls = SCPPacket if scp else SDPPacket
        slots = SCP_SLOTS if scp else SDP_SLOTS
        mn = [m for m in menu if m[0] in slots]
        for origin in ("built", "decoded"):
            for ops in itertools.chain(
                    ((a,) for a in mn),
                    itertools.permutations(mn, 2)):
                f = dict(BACKGROUNDS[2])
                if origin == "built":
                    pkt = cls(**{k: f[k] for k in slots})
                else:
                    wire0 = ref_encode(f, scp)
                    pkt = (cls.from_bytestring(wire0, n_args=3) if scp
                           else cls.from_bytestring(wire0))
                acc.evaluations += 1
                acc.nontrivial += 1
                case = dict(scp=scp, what="history", origin=origin,
                            ops=[[k, v.hex() if isinstance(v, bytes) else v]
                                 for k, v in ops])
                try:
                    first = pkt.bytestring
                    ok = first == ref_encode(f, scp)
                    for k, v in ops:
                        setattr(pkt, k, v)
                        f[k] = v
                        if f.get("arg2") is None and scp:
                            # arguments are a prefix: dropping arg2 drops arg3
                            pass
                        wire = pkt.bytestring
                        if wire != ref_encode(f, scp):
                            ok = False
                            break
                except Exception as e:
                    acc.violation(dict(kind="history_exception"), case,
                                  "re-encoding raised %s: %s"
                                  % (type(e).__name__, e))
                    continue
                if not ok:
                    acc.violation(dict(kind="stale_encoding"), case,
                                  "after %r the %s packet encodes to %s, its "
                                  "fields say %s" % (
                                      [o[0] for o in ops], origin, wire.hex(),
                                      ref_encode(f, scp).hex()))
    acc.sample(dict(part="history", menu=[m[0] for m in menu]))


def part_decseq(acc):
    """Decoding histories: packet A is decoded, then a packet B that differs
    from A in exactly one byte (every byte position of the SDP and SCP
    headers and of the arguments; two alternative values); B must decode to
    its own fields whatever was decoded before (both classes, both orders)."""
    from rig.machine_control.packets import SCPPacket, SDPPacket
    for scp in (True, False):
        cls = SCPPacket if scp else SDPPacket
        slots = SCP_SLOTS if scp else SDP_SLOTS
        for bi, bg in enumerate(BACKGROUNDS):
            a = ref_encode(bg, scp)
            for pos in range(2, len(a)):
                for flip in (0xff, 0x01):
                    b = bytearray(a)
                    if pos == 2:
                        b[pos] = 0x87 if a[pos] == 0x07 else 0x07
                    else:
                        b[pos] ^= flip
                    b = bytes(b)
                    for first, second in ((a, b), (b, a)):
                        acc.evaluations += 1
                        acc.nontrivial += 1
                        case = dict(scp=scp, what="decseq",
                                    first=first.hex(), second=second.hex())
                        try:
                            if scp:
                                cls.from_bytestring(first, n_args=3)
                                got = cls.from_bytestring(second, n_args=3)
                            else:
                                cls.from_bytestring(first)
                                got = cls.from_bytestring(second)
                        except Exception as e:
                            acc.violation(dict(kind="decode_exception",
                                               field="decseq"), case,
                                          "decoding raised %s: %s"
                                          % (type(e).__name__, e))
                            continue
                        want = ref_decode(second, scp, 3)
                        for s_ in slots:
                            if getattr(got, s_) != want[s_]:
                                acc.violation(
                                    dict(kind="decode_after_decode",
                                         field=s_), case,
                                    "after decoding %s, %s decodes with "
                                    "%s = %r (its bytes say %r)"
                                    % (first.hex(), second.hex(), s_,
                                       getattr(got, s_), want[s_]))
                                break
    acc.sample(dict(part="decseq", backgrounds=len(BACKGROUNDS)))


def part_pairs(acc, k):
    """Pairwise: two 8-bit fields jointly over a boundary alphabet, the 16-bit
    fields jointly with each byte field."""
    vals = [0, 1, 0x7f, 0x80, 0xfe, 0xff, 0x55, 0xaa]
    v16 = [0, 1, 0xff, 0x100, 0x7fff, 0x8000, 0xffff, 0xa55a]
    names = FIELDS8 + ["cmd_rc", "seq"]
    pairs = list(itertools.combinations(names, 2))
    for i, (a, b) in enumerate(pairs):
        if i % 16 != k:
            continue
        for bg in BACKGROUNDS:
            for va in (v16 if a in ("cmd_rc", "seq") else vals):
                for vb in (v16 if b in ("cmd_rc", "seq") else vals):
                    f = dict(bg)
                    f[a], f[b] = va, vb
                    judge(f, True, acc, a + "+" + b)
    acc.sample(dict(part="pairs", k=k))


def run_shard(params, tier, acc):
    p = params["part"]
    if p == "bytes":
        part_bytes(acc)
    elif p == "portcpu":
        part_portcpu(acc)
    elif p == "args":
        part_args(acc)
    elif p == "decode":
        part_decode(acc)
    elif p == "history":
        part_history(acc)
    elif p == "decseq":
        part_decseq(acc)
    elif p in ("cmd", "seq"):
        part_word16(acc, "cmd_rc" if p == "cmd" else "seq", params["k"])
    elif p == "pairs":
        part_pairs(acc, params["k"])


def replay(case, acc):
    if case.get("what") == "decode":
        part_decode(acc)
        return
    if case.get("what") == "history":
        part_history(acc)
        return
    if case.get("what") == "decseq":
        part_decseq(acc)
        return
    f = dict(case["fields"])
    f["data"] = bytes.fromhex(f["data"])
    for k in SCP_SLOTS:
        f.setdefault(k, None)
    judge(f, case["scp"], acc, case["what"])


def selftest():
    f = dict(BACKGROUNDS[2])
    w = ref_encode(f, True)
    assert w[:2] == b"\0\0" and w[2] == 0x87 and w[4] == (5 << 5 | 10)
    assert w[10:14] == bytes([0xaa, 0xaa, 0x55, 0x55])
    d = ref_decode(w, True, 3)
    assert all(d[k] == f[k] for k in f), (d, f)
    d = ref_decode(w, True, 1)
    assert d["arg2"] is None and len(d["data"]) == 8 + 3
