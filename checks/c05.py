"""C05 - allocated resource ranges are exact, in range, disjoint, unreserved.

Bounded-exhaustive enumeration (E3) of reservation layouts x alignments x
vertex sets x placements x dictionary orders on the real `allocate`, judged by
an oracle written straight from the property statement."""
import itertools

PROPERTY = "C05"
LEVEL = "exploration"
TECHNIQUE = ("bounded-exhaustive enumeration of reservation layouts, "
             "alignments, vertex sets, placements and dict orders on the real "
             "allocator against a statement-level oracle")
RULE = ("family A: one chip, capacity 8, every ordered list of <=2 (thorough "
        "<=3) disjoint reserved ranges each global or per-chip, alignment in "
        "{none,1,2,3,4}, every ordered tuple of <=3 vertices needing 0..4; "
        "family C: three chips, one with more and one with less than the machine-wide amount, reservations anywhere in the larger range; family B: two chips (one a resource exception) x second resource x "
        "reservation menu x all placements x all placement-dict orders; "
        "family H: ordered pairs of 12 calls in one process. "
        "Non-trivial: at least one vertex needs >0 and at least one "
        "reservation or alignment or second chip is involved; cases are "
        "distinct by construction (nested enumeration without repetition)")
ASSUMPTIONS = [
    "reservations are pairwise disjoint (the constraint's documented "
    "precondition); in family C a global reservation may lie beyond the end "
    "of a chip that has less than the machine-wide amount",
    "completeness clause is demanded only without alignment and when the "
    "unreserved part of each chip's range is one contiguous interval",
]


def scope(tier):
    return dict(
        family_A=dict(capacity=8, max_reservations=2 if tier == "quick" else 3,
                      alignments=[None, 1, 2, 3, 4], max_vertices=3,
                      needs=[0, 1, 2, 3, 4]),
        family_B=dict(chips=[(0, 0), (1, 0)], capacity=6,
                      exception_capacity=4, second_resource_capacity=2,
                      max_vertices=3, alignments=[None, 2],
                      vertex_kinds=(4 if tier == "quick" else 7)))


def ranges(cap, empty=False):
    out = [(a, b) for a in range(cap) for b in range(a + 1, cap + 1)]
    if empty:
        # zero-size reservations reserve nothing (anywhere inside the range)
        out += [(a, a) for a in range(0, cap + 1, 2)]
    return out


def disjoint_lists(cap, k):
    """Every ordered list of <= k pairwise disjoint non-empty ranges."""
    rs = ranges(cap, empty=True)
    out = [()]
    for n in range(1, k + 1):
        for combo in itertools.permutations(rs, n):
            ok = True
            for i in range(n):
                for j in range(i + 1, n):
                    if max(combo[i][0], combo[j][0]) < min(combo[i][1],
                                                           combo[j][1]):
                        ok = False
            if ok:
                out.append(combo)
    return out


def shards(tier):
    out = []
    sc = scope(tier)
    k = sc["family_A"]["max_reservations"]
    for first in [None] + ranges(8, empty=True):
        out.append(dict(fam="A", first=first, k=k))
    nk = sc["family_B"]["vertex_kinds"]
    for al in sc["family_B"]["alignments"]:
        for nv in (1, 2):
            out.append(dict(fam="B", align=al, nv=nv, first=None))
        for k0 in range(nk):
            for p0 in range(2):
                out.append(dict(fam="B", align=al, nv=3, first=[k0, p0]))
    for k in range(8):
        out.append(dict(fam="C", big=8, k=k, K=8))
    out.append(dict(fam="H"))
    return out


# --------------------------------------------------------------------------
def build(case):
    """case -> (vertices_resources, machine, constraints, placements)"""
    from rig.place_and_route import Machine
    from rig.place_and_route.constraints import (
        ReserveResourceConstraint, AlignResourceConstraint)
    caps = dict(case["caps"])
    machine = Machine(case["w"], 1, chip_resources=dict(caps),
                      chip_resource_exceptions={
                          tuple(xy): dict(r) for xy, r in case["exceptions"]})
    constraints = []
    for res, (a, b), loc in case["reservations"]:
        constraints.append(ReserveResourceConstraint(
            res, slice(a, b), None if loc is None else tuple(loc)))
    for res, al in case["alignments"]:
        constraints.append(AlignResourceConstraint(res, al))
    vr = {}
    pl = {}
    for name, needs, xy in case["vertices"]:       # in placement-dict order
        vr[name] = dict(needs)
        pl[name] = tuple(xy)
    return vr, machine, constraints, pl


def snapshot(vr, machine, constraints, pl):
    return (sorted((k, sorted(v.items())) for k, v in vr.items()),
            list(pl.items()),
            (machine.width, machine.height, sorted(machine.chip_resources.items()),
             sorted((k, sorted(v.items())) for k, v in
                    machine.chip_resource_exceptions.items()),
             sorted(machine.dead_chips), sorted(machine.dead_links)),
            [tuple(sorted((k, repr(v)) for k, v in vars(c).items()))
             for c in constraints])


def judge(case, acc):
    from rig.place_and_route.allocate.greedy import allocate
    from rig.place_and_route.exceptions import InsufficientResourceError
    def viol(sig, *a_, **k_):
        # a verdict that depends on calls made before is marked so (it is
        # kept apart from the same kind of verdict on a single call)
        if case.get("history"):
            sig = dict(sig, history=True)
        acc.violation(sig, *a_, **k_)
    for earlier in case.get("history", []):
        # calls made before in the same process (their outcome is judged
        # when they are the case themselves)
        try:
            a_ = build(earlier)
            allocate(a_[0], [], a_[1], a_[2], a_[3])
        except Exception:
            pass
    vr, machine, constraints, pl = build(case)
    before = snapshot(vr, machine, constraints, pl)
    acc.evaluations += 1
    try:
        res = allocate(vr, [], machine, constraints, pl)
        exc = None
    except InsufficientResourceError as e:
        res, exc = None, e
    except Exception as e:   # any other exception is a violation
        viol(dict(kind="wrong_exception", exc=type(e).__name__), case,
                      "allocate raised %s: %s" % (type(e).__name__, e),
                      size=case_size(case))
        return
    if snapshot(vr, machine, constraints, pl) != before:
        viol(dict(kind="arguments_modified"), case,
                      "allocate modified its arguments", size=case_size(case))
    caps = dict(case["caps"])
    exc_caps = {tuple(xy): dict(r) for xy, r in case["exceptions"]}
    align = dict(case["alignments"])

    def cap(xy, r):
        return exc_caps.get(xy, caps)[r]

    def reserved(xy, r):
        return [(a, b) for res, (a, b), loc in case["reservations"]
                if res == r and (loc is None or tuple(loc) == xy)]

    if exc is not None:
        acc.outcome("insufficient")
        # completeness clause
        if not case["alignments"]:
            feasible = True
            for xy in set(tuple(v[2]) for v in case["vertices"]):
                for r in caps:
                    c = cap(xy, r)
                    used = [False] * c
                    for a, b in reserved(xy, r):
                        for i in range(a, min(b, c)):
                            used[i] = True
                    free = [i for i in range(c) if not used[i]]
                    contiguous = (not free or
                                  free == list(range(free[0], free[-1] + 1)))
                    need = sum(dict(n).get(r, 0) for _, n, p in
                               case["vertices"] if tuple(p) == xy)
                    if not contiguous:
                        feasible = None   # clause does not apply
                        break
                    if need > len(free):
                        feasible = False
                if feasible is None:
                    break
            if feasible:
                viol(
                    dict(kind="feasible_rejected"), case,
                    "allocate raised InsufficientResourceError (%s) although "
                    "there is no alignment, reservations leave one contiguous "
                    "free interval per chip and the needs fit" % exc,
                    size=case_size(case))
        return
    acc.outcome("allocated")
    # ---- success: check the statement clause by clause
    names = [v[0] for v in case["vertices"]]
    if set(res) != set(names):
        viol(dict(kind="vertex_set"), case,
                      "allocation has vertices %r, expected %r"
                      % (sorted(res), sorted(names)), size=case_size(case))
        return
    given = {}
    for name, needs, xy in case["vertices"]:
        xy = tuple(xy)
        needs = dict(needs)
        if set(res[name]) != set(needs):
            viol(dict(kind="resource_set"), case,
                          "vertex %r got resources %r, needs %r"
                          % (name, sorted(map(str, res[name])), sorted(needs)),
                          size=case_size(case))
            return
        for r, n in needs.items():
            s = res[name][r]
            msg = None
            kind = None
            if not isinstance(s, slice) or s.step is not None:
                kind, msg = "not_slice", "not a plain slice"
            elif s.stop - s.start != n:
                kind, msg = "size", "size %d requested %d" % (
                    s.stop - s.start, n)
            elif s.start < 0 or s.stop > cap(xy, r):
                kind, msg = "out_of_range", "outside [0,%d)" % cap(xy, r)
            elif s.start % align.get(r, 1) != 0:
                kind, msg = "alignment", "start not a multiple of %d" % (
                    align[r])
            else:
                for a, b in reserved(xy, r):
                    if max(a, s.start) < min(b, s.stop):
                        kind, msg = "overlaps_reservation", \
                            "overlaps reserved [%d,%d)" % (a, b)
                for (o, (oa, ob)) in given.get((xy, r), []):
                    if max(oa, s.start) < min(ob, s.stop):
                        kind, msg = "overlaps_vertex", \
                            "overlaps vertex %r's [%d,%d)" % (o, oa, ob)
            if kind:
                viol(dict(kind=kind), case,
                              "vertex %r on %r resource %s got %r: %s"
                              % (name, xy, r, s, msg), size=case_size(case))
                return
            given.setdefault((xy, r), []).append((name, (s.start, s.stop)))


def case_size(case):
    return (len(case["vertices"]) * 10 + len(case["reservations"]) * 5 +
            len(case["alignments"]) + case["w"])


# --------------------------------------------------------------------------
def run_A(params, tier, acc):
    first = params["first"]
    k = params["k"]
    first = None if first is None else tuple(first)
    layouts = [l for l in disjoint_lists(8, k)
               if (l[0] if l else None) == first]
    needs_tuples = [t for n in (1, 2, 3)
                    for t in itertools.product(range(5), repeat=n)]
    for layout in layouts:
        for kinds in itertools.product((None, (0, 0)), repeat=len(layout)):
            resv = [["R", list(rg), kd] for rg, kd in zip(layout, kinds)]
            for al in (None, 1, 2, 3, 4):
                for needs in needs_tuples:
                    case = dict(
                        w=1, caps=[["R", 8]], exceptions=[],
                        reservations=resv,
                        alignments=[] if al is None else [["R", al]],
                        vertices=[["v%d" % i, [["R", n]], [0, 0]]
                                  for i, n in enumerate(needs)])
                    if any(needs) and (layout or al not in (None, 1)):
                        acc.nontrivial += 1
                    judge(case, acc)
        acc.sample(dict(family="A", reservations=[list(r) for r in layout],
                        alignments=[None, 1, 2, 3, 4],
                        vertex_need_tuples=len(needs_tuples)))


B_RES_MENU = [("R", (0, 1)), ("R", (0, 2)), ("R", (3, 4)), ("R", (2, 4)),
              ("S", (0, 1)), ("S", (1, 2))]
B_LOCS = [None, (0, 0), (1, 0)]


def b_layouts():
    items = [(r, rg, loc) for r, rg in B_RES_MENU for loc in B_LOCS]
    out = [()]
    for a in items:
        out.append((a,))
    for a, b in itertools.permutations(items, 2):
        # disjoint where they can meet
        if a[0] == b[0] and max(a[1][0], b[1][0]) < min(a[1][1], b[1][1]) \
                and (a[2] is None or b[2] is None or a[2] == b[2]):
            continue
        out.append((a, b))
    return out


def run_B(params, tier, acc):
    al = params["align"]
    nv = params["nv"]
    kinds = [[["R", 1]], [["R", 2]], [["R", 1], ["S", 1]], [["R", 0]]]
    if tier != "quick":
        kinds += [[["R", 3]], [["S", 2]], []]
    chips = [(0, 0), (1, 0)]
    layouts = b_layouts()
    first = params.get("first")
    for vk in itertools.product(range(len(kinds)), repeat=nv):
        if first is not None and vk[0] != first[0]:
            continue
        for places in itertools.product(chips, repeat=nv):
            if first is not None and places[0] != chips[first[1]]:
                continue
            base = [["v%d" % i, kinds[vk[i]], list(places[i])]
                    for i in range(nv)]
            for order in itertools.permutations(range(nv)):
                verts = [base[i] for i in order]
                for layout in layouts:
                    case = dict(
                        w=2, caps=[["R", 6], ["S", 2]],
                        exceptions=[[[1, 0], [["R", 4], ["S", 2]]]],
                        reservations=[[r, list(rg), loc]
                                      for r, rg, loc in layout],
                        alignments=[] if al is None else [["R", al]],
                        vertices=verts)
                    acc.nontrivial += 1
                    judge(case, acc)
        acc.sample(dict(family="B", vertex_kinds=[kinds[i] for i in vk],
                        alignment=al, layouts=len(layouts)))


def run_C(params, tier, acc):
    """A chip that has MORE of a resource than the machine-wide figure (and
    one that has less): reservations - global or for one chip - anywhere in
    the larger range, also wholly beyond the end of the smaller chips."""
    big = params["big"]
    chips = [(0, 0), (1, 0), (2, 0)]
    rs = ranges(big) if tier != "quick" else \
        [(a, b) for a, b in ranges(big) if b - a <= 3 or a == 0]
    items = [(rg, loc) for rg in rs for loc in [None] + chips[:2]]
    layouts = [(a,) for a in items]
    for a, b in itertools.permutations(items, 2):
        if max(a[0][0], b[0][0]) < min(a[0][1], b[0][1]) and \
                (a[1] is None or b[1] is None or a[1] == b[1]):
            continue
        if a[1] is not None and b[1] is not None and a[1] != b[1]:
            continue
        layouts.append((a, b))
    needs = [1, 2, 3, 5]
    k = params["k"]
    i = -1
    for layout in layouts:
        i += 1
        if i % params["K"] != k:
            continue
        for nv in (1, 2):
            for nd in itertools.product(needs, repeat=nv):
                for places in itertools.product(chips, repeat=nv):
                    case = dict(
                        w=3, caps=[["R", 4]],
                        exceptions=[[[1, 0], [["R", big]]],
                                    [[2, 0], [["R", 3]]]],
                        reservations=[["R", list(rg), loc]
                                      for rg, loc in layout],
                        alignments=[],
                        vertices=[["v%d" % j, [["R", nd[j]]], list(places[j])]
                                  for j in range(nv)])
                    acc.nontrivial += 1
                    judge(case, acc)
    acc.sample(dict(family="C", big=big, layouts=len(layouts)))


def run_H(params, tier, acc):
    """Two calls in one process: constraints (alignment, reservations) and
    machines of the first call must leave no trace in the second."""
    base = dict(w=1, caps=[["R", 8]], exceptions=[])
    firsts = []
    for al in (2, 3, 4, 8):
        firsts.append(dict(base, reservations=[], alignments=[["R", al]],
                           vertices=[["a", [["R", 1]], [0, 0]],
                                     ["b", [["R", 1]], [0, 0]]]))
    firsts.append(dict(base, reservations=[["R", [2, 6], None]],
                       alignments=[], vertices=[["a", [["R", 1]], [0, 0]]]))
    firsts.append(dict(base, reservations=[["R", [0, 7], [0, 0]]],
                       alignments=[["R", 4]],
                       vertices=[["a", [["R", 5]], [0, 0]]]))   # fails
    seconds = []
    for needs in ((3, 5), (1, 1, 1, 5), (8,), (1, 2, 5), (7, 1)):
        seconds.append(dict(base, reservations=[], alignments=[],
                            vertices=[["v%d" % i, [["R", n]], [0, 0]]
                                      for i, n in enumerate(needs)]))
    seconds.append(dict(base, reservations=[["R", [0, 1], None]],
                        alignments=[["R", 2]],
                        vertices=[["x", [["R", 2]], [0, 0]],
                                  ["y", [["R", 3]], [0, 0]]]))
    for f in firsts + seconds:
        for g in seconds + firsts:
            acc.nontrivial += 1
            judge(dict(g, history=[f]), acc)
            judge(dict(g, history=[f, f]), acc)
    acc.sample(dict(family="H", firsts=len(firsts), seconds=len(seconds)))


def run_shard(params, tier, acc):
    if params["fam"] == "H":
        run_H(params, tier, acc)
        return
    if params["fam"] == "A":
        run_A(params, tier, acc)
    elif params["fam"] == "C":
        run_C(params, tier, acc)
    else:
        run_B(params, tier, acc)


def replay(case, acc):
    judge(case, acc)


def selftest():
    assert len(ranges(3)) == 6
    ls = disjoint_lists(3, 2)
    assert () in ls and ((0, 1), (1, 3)) in ls and ((0, 2), (1, 3)) not in ls
