"""C09 - application loading returns only when every requested core is loaded.

E1 + E4, fault enumeration: the real MachineController.load_application runs
against the simulated machine; for every flood fill the set of chips that
silently miss it is a choice point and *all* subsets are enumerated on every
attempt.  The simulated machine assembles and validates each fill; an oracle
compares the final core table with the request."""
import itertools
import os
import shutil
import tempfile

from mc.explore import explore, Chooser
from mc.ctl import Session
from mc.sim import SimMachine, region_covers, ST_WAIT, ST_RUN, ST_IDLE

PROPERTY = "C09"
LEVEL = "fault_enumeration"
TECHNIQUE = ("exhaustive enumeration of per-fill sets of chips missing a "
             "flood fill (all subsets on every attempt) on the real "
             "load_application over a simulated machine that assembles and "
             "validates every fill")
RULE = ("part A (format): maps x binary sizes {4,buf-4,buf,buf+4,2buf} x "
        "buffer {16,256} x wait x verification mode, no faults; part B "
        "(faults): maps of 1-2 binaries on <=3 chips x n_tries {0,1,2} x "
        "verification mode x initial core table {clean, target core already "
        "waiting, other core waiting under the same application id} x every "
        "miss-subset on every fill. Non-trivial: at least one chip misses a "
        "fill; executions are distinct by construction")
ASSUMPTIONS = [
    "a chip either receives a whole fill (start, selections, data, end) or "
    "none of it; the machine-wide core count and per-core state reads are "
    "answered from the simulated core table",
    "binary sizes are whole numbers of words (documented restriction of the "
    "flood-fill data packet)",
]

APP = 30
_tmp = None


def repo():
    from mc.runner import REPO as R
    return R


def tmpdir():
    global _tmp
    if _tmp is None:
        _tmp = tempfile.mkdtemp(prefix="rigverif_c09_")
        import atexit
        atexit.register(shutil.rmtree, _tmp, True)
    return _tmp


def binary(name, size):
    p = os.path.join(tmpdir(), "%s_%d.aplx" % (name, size))
    if not os.path.exists(p):
        with open(p, "wb") as f:
            f.write(bytes(((i * 13 + ord(name[0])) & 0xff)
                          for i in range(size)))
    return p


MAPS = [
    # name -> {chip: cores}
    [("a", {(0, 0): [1]})],
    [("a", {(1, 0): [1, 2]})],
    [("a", {(0, 0): [1], (1, 1): [3]})],
    [("a", {(0, 0): [1, 2], (1, 0): [1, 2], (0, 1): [1, 2]})],
    [("a", {(0, 0): [1], (1, 0): [1, 2], (1, 1): [17]})],
    [("a", {(0, 0): [1]}), ("b", {(1, 0): [1, 2]})],
    [("a", {(0, 0): [1]}), ("b", {(0, 0): [2], (1, 1): [1]})],
    [("a", {(0, 0): [1], (0, 1): [1]}), ("b", {(1, 0): [3]})],
    # core 16/17 on the chip with the smaller region word (ordering of the
    # core selections)
    [("a", {(0, 0): [17], (1, 0): [1]})],
    [("a", {(0, 0): [16, 17], (1, 0): [2], (1, 1): [1, 17]})],
]
INITIAL = ["clean", "target_waiting", "other_waiting"]


def scope(tier):
    return dict(maps=len(MAPS),
                n_tries=[0, 1, 2] if tier == "quick" else [0, 1, 2, 3],
                wait=[False] if tier == "quick" else [False, True],
                initial=INITIAL,
                use_count=[True, False], buffers=[16, 256],
                miss="all subsets of the map's chips on every fill")


def shards(tier):
    out = [dict(part="A", map=i) for i in range(len(MAPS))]
    for i in range(len(MAPS)):
        for nt in ((0, 1, 2) if tier == "quick" else (0, 1, 2, 3)):
            for uc in (True, False):
                for init in INITIAL:
                    for wait in ((False,) if tier == "quick"
                                 else (False, True)):
                        out.append(dict(part="B", map=i, n_tries=nt,
                                        use_count=uc, initial=init,
                                        wait=wait))
    out.append(dict(part="big"))
    out.append(dict(part="hist"))
    return out


def run_one(cfg, ch, acc):
    """One execution of load_application; returns nothing, reports via acc."""
    from rig.machine_control.machine_controller import SpiNNakerLoadingError
    size_w, size_h = cfg.get("dims", (2, 2))
    sim = SimMachine(repo(), size_w, size_h, buffer_size=cfg["buffer"])
    sim.full_sync = False
    m = MAPS[cfg["map"]] if "map" in cfg else cfg["_map"]
    cfg = {k: v for k, v in cfg.items() if k != "_map"}
    chips = sorted(set(c for _, t in m for c in t))
    files = {}
    app_map = {}
    want = {}          # (chip, core) -> file contents
    for bi, (name, targets) in enumerate(m):
        # binaries of one load differ in length (and in number of blocks)
        path = binary(name, cfg["size"] + bi * (cfg["buffer"] + 4))
        files[name] = open(path, "rb").read()
        app_map[path] = {tuple(c): set(ps) for c, ps in targets.items()}
        for c, ps in targets.items():
            for p in ps:
                want[(tuple(c), p)] = files[name]
    init = cfg.get("initial", "clean")
    pre = None
    if init == "target_waiting":
        c, p = sorted(want)[0]
        pre = (c, p)
    elif init == "other_waiting":
        # a core that is not requested, on a requested chip if possible
        c = chips[0]
        taken = set(ps for (cc, ps) in want if cc == c)
        p = next(q for q in range(1, 18) if q not in taken)
        pre = (c, p)
    if pre:
        chip = sim.chips[pre[0]]
        chip.core_state[pre[1]] = ST_WAIT
        chip.core_app[pre[1]] = APP
        chip.core_image[pre[1]] = b"old image"
    before = {(xy, p): (c.core_state[p], c.core_app[p], c.core_image[p])
              for xy, c in sim.chips.items() for p in range(18)}
    missing_at_fill = {}

    def ff_miss(sim_, fill):
        # chips this fill addresses (decoded from its selections)
        tgt = sorted(xy for xy in sim_.chips
                     if any(region_covers(r, xy[0], xy[1])
                            for r, m_ in fill.selections))
        if cfg.get("miss_menu"):
            tgt = [c for c in tgt if list(c) in cfg["miss_menu"]]
        k = ch.choose(2 ** len(tgt), "miss") if tgt else 0
        miss = set(tgt[i] for i in range(len(tgt)) if k & (1 << i))
        # record which requested cores are not loaded right now
        missing_at_fill[id(fill)] = set(
            key for key, img in want.items()
            if not loaded(sim_, key, img, None))
        return miss
    sim.ff_miss = ff_miss
    outcome = None
    with Session(sim, n_tries=2) as s:
        acc.evaluations += 1
        try:
            if cfg.get("via") == "ctx":
                # app_id and wait are contextual arguments: a with-block
                # may supply them
                with s.mc(app_id=APP, wait=cfg["wait"]):
                    s.mc.load_application(app_map, n_tries=cfg["n_tries"],
                                          use_count=cfg["use_count"])
            else:
                s.mc.load_application(app_map, app_id=APP, wait=cfg["wait"],
                                      n_tries=cfg["n_tries"],
                                      use_count=cfg["use_count"])
            outcome = "return"
        except SpiNNakerLoadingError as e:
            outcome = "loading_error"
            err = e
        except Exception as e:
            report(acc, cfg, ch, dict(kind="exception",
                                      exc=type(e).__name__),
                   "load_application raised %s: %s" % (type(e).__name__, e))
            return
    any_miss = any(c for c in ch.choices)
    if any_miss:
        acc.nontrivial += 1
    acc.outcome(outcome)
    if sim.errors:
        report(acc, cfg, ch, dict(kind="malformed_fill"),
               "machine saw: %s" % sim.errors[0])
    final_state = ST_WAIT if cfg["wait"] else ST_RUN
    not_loaded = set(key for key, img in want.items()
                     if not loaded(sim, key, img, None))
    if outcome == "return":
        bad = sorted(key for key, img in want.items()
                     if not loaded(sim, key, img, final_state))
        if bad:
            stale = bool(pre) and (
                (pre in want and set(bad) <= {pre}) or
                (pre not in want and cfg["use_count"] and len(bad) == 1))
            report(acc, cfg, ch,
                   dict(kind="returned_but_not_loaded",
                        cause="stale_waiting_core" if stale else "other"),
                   "load_application returned normally but cores %r do not "
                   "hold their binary in state %s (states %r)"
                   % (bad, "wait" if cfg["wait"] else "run",
                      [(sim.chips[c].core_state[p], sim.chips[c].core_app[p])
                       for c, p in bad]))
    else:
        named = set()
        for path, targets in err.app_map.items():
            for c, ps in targets.items():
                for p in ps:
                    named.add((tuple(c), p))
        if named != not_loaded:
            stale = bool(pre) and pre in want and named <= not_loaded and \
                (not_loaded - named) <= {pre}
            report(acc, cfg, ch,
                   dict(kind="error_names_wrong_cores",
                        cause="stale_waiting_core" if stale else "other"),
                   "SpiNNakerLoadingError names %r, cores still not loaded "
                   "are %r" % (sorted(named), sorted(not_loaded)))
        if not not_loaded:
            report(acc, cfg, ch, dict(kind="error_but_loaded"),
                   "SpiNNakerLoadingError although every core is loaded")
    # no unrequested core changed (the pre-existing one may be started by the
    # start signal, which addresses the application id)
    for key, old in before.items():
        if key in want:
            continue
        xy, p = key
        c = sim.chips[xy]
        now = (c.core_state[p], c.core_app[p], c.core_image[p])
        if now != old:
            if pre == key and now[1:] == old[1:] and now[0] == ST_RUN and \
                    outcome == "return" and not cfg["wait"]:
                continue
            report(acc, cfg, ch, dict(kind="unrequested_core_changed"),
                   "core %r was not requested but changed from %r to %r"
                   % (key, old[:2], now[:2]))
            break
    # attempts: bounded, retries address only the cores missing at the time
    per_binary = {}
    for i, f in enumerate(sim.fills):
        img = getattr(f, "image", None)
        name = [n for n, d in files.items() if d == img]
        if not name:
            continue
        per_binary.setdefault(name[0], []).append((i, f))
    for name, fl in per_binary.items():
        if len(fl) > cfg["n_tries"] + 1:
            report(acc, cfg, ch, dict(kind="too_many_attempts"),
                   "binary %s flood-filled %d times, n_tries=%d"
                   % (name, len(fl), cfg["n_tries"]))
        for i, f in fl:
            sel = set()
            for region, mask in f.selections:
                for xy in sim.chips:
                    if region_covers(region, xy[0], xy[1]):
                        for p in range(18):
                            if mask & (1 << p):
                                sel.add((xy, p))
            mine = set(k for k, img in want.items() if img == files[name])
            missing_then = (missing_at_fill[id(f)] & mine
                            if id(f) in missing_at_fill else None)
            if missing_then is not None and sel != missing_then:
                stale = bool(pre) and pre in want and sel <= missing_then \
                    and (missing_then - sel) <= {pre}
                report(acc, cfg, ch,
                       dict(kind="retry_targets", first=(f is fl[0][1]),
                            cause="stale_waiting_core" if stale else "other"),
                       "fill %d of binary %s selects %r, cores not loaded "
                       "at that time were %r" % (i, name, sorted(sel),
                                                 sorted(missing_then)))
                break
    if outcome == "return" and not cfg["wait"]:
        starts = [s_ for s_ in sim.signals if s_[0] == "signal" and
                  s_[1] == 3 and s_[2] == APP]
        if len(starts) != 1:
            report(acc, cfg, ch, dict(kind="start_signal"),
                   "%d start signals sent" % len(starts))
    if cfg["wait"] and any(s_[0] == "signal" and s_[1] == 3
                           for s_ in sim.signals):
        report(acc, cfg, ch, dict(kind="start_signal_when_waiting"),
               "start signal sent although wait=True")


def loaded(sim, key, img, state):
    (xy, p) = key
    c = sim.chips[xy]
    ok = c.core_image[p] == img and c.core_app[p] == APP
    if state is not None:
        ok = ok and c.core_state[p] == state
    else:
        ok = ok and c.core_state[p] in (ST_WAIT, ST_RUN)
    return ok


def describe_map(i):
    return [[n, [[c[0], c[1], ps] for c, ps in sorted(t.items())]]
            for n, t in MAPS[i]]


def report(acc, cfg, ch, sig, msg):
    case = dict(cfg=cfg, choices=list(ch.choices))
    acc.violation(sig, case, msg + "\n  config %r\n  miss choices %r"
                  % (cfg, list(ch.choices)),
                  size=len(ch.choices) * 10 + sum(ch.choices))


def part_A(params, tier, acc):
    for buf in (16, 256):
        for size in (4, buf - 4, buf, buf + 4, 2 * buf, 2 * buf + 4):
            for wait in (False, True):
                for uc in (True, False):
                    for via in ("kw", "ctx"):
                        cfg = dict(map=params["map"], buffer=buf, size=size,
                                   wait=wait, use_count=uc, n_tries=2,
                                   initial="clean", via=via)
                        acc.nontrivial += 1
                        run_one(cfg, Chooser(), acc)
    acc.sample(dict(part="A", map=describe_map(params["map"])))


def part_B(params, tier, acc):
    n = 0
    for size in ((20,) if tier == "quick" else (20, 36)):
        cfg = dict(map=params["map"], buffer=16, size=size,
                   wait=params.get("wait", False),
                   use_count=params["use_count"], n_tries=params["n_tries"],
                   initial=params["initial"])
        n += explore(lambda ch: run_one(cfg, ch, acc), bound=None,
                     budget=100)
    acc.sample(dict(part="B", config=cfg, executions=n))


BIG_MENU = [(0, 0), (3, 3), (4, 4)]


def part_big(params, tier, acc):
    # a larger machine, far-away chips, blocks that collapse into regions;
    # the miss menu is restricted to three chips (all subsets of 17 chips
    # per fill are too many)
    t = [[x, y, [1, 2]] for x in range(4) for y in range(4)]
    t.append([4, 4, [5]])
    for uc in (True, False):
        cfg = dict(custom_map=[["a", t]], dims=[5, 5], buffer=256, size=260,
                   wait=False, use_count=uc, n_tries=1, initial="clean")
        explore(lambda ch, cfg=cfg: run_one_big(cfg, ch, acc), bound=None,
                budget=100)
    acc.sample(dict(part="big", chips=17, miss_menu=BIG_MENU))


def run_one_big(cfg, ch, acc):
    m = [(n, {(x, y): ps for x, y, ps in t}) for n, t in cfg["custom_map"]]
    cfg2 = dict(cfg, _map=m, miss_menu=[list(c) for c in BIG_MENU])
    run_one(cfg2, ch, acc)


HIST_STEPS = [
    # (file contents generation, size, targets, wait)
    [(1, 20, {(0, 0): [1]}), (2, 20, {(1, 0): [2]})],
    [(1, 20, {(0, 0): [1]}), (2, 36, {(0, 0): [3], (1, 1): [1]})],
    [(1, 36, {(0, 0): [1, 2]}), (2, 12, {(0, 1): [1]})],
    [(1, 20, {(0, 0): [1]}), (1, 20, {(1, 0): [1]})],
    [(1, 20, {(0, 0): [1]}), (2, 20, {(0, 0): [1]}), (3, 24, {(0, 0): [1]})],
]


def hist_execution(case, acc):
    """Several load_application calls on ONE controller, the binary file
    being rewritten (same path) between them: every load sends what the file
    holds at the time."""
    from rig.machine_control.machine_controller import SpiNNakerLoadingError
    steps = case["steps"]
    if len(steps) >= 10:
        # replayable by name rather than by 140 recorded steps
        case = dict(hist=True, long=True, wait=case["wait"], steps=steps)
        rcase = dict(hist=True, long=True, wait=case["wait"])
    else:
        rcase = case
    sim = SimMachine(repo(), 2, 2, buffer_size=16)
    sim.full_sync = False
    path = os.path.join(tmpdir(), "hist_%d.aplx" % os.getpid())
    acc.evaluations += 1
    acc.nontrivial += 1
    with Session(sim, n_tries=2) as s:
        for i, (gen, size, targets) in enumerate(steps):
            data = bytes((j * 7 + gen * 31) & 0xff for j in range(size))
            with open(path, "wb") as f:
                f.write(data)
            tg = {tuple(c): set(ps) for c, ps in targets.items()} \
                if isinstance(targets, dict) else \
                {(x, y): set(ps) for x, y, ps in targets}
            # cores loaded by an earlier step are stopped (as "rig-power" or
            # a stop signal would) so that they can be loaded again
            for xy, ps in tg.items():
                for p in ps:
                    sim.chips[xy].core_state[p] = 0
                    sim.chips[xy].core_app[p] = 0
            try:
                s.mc.load_application({path: tg}, app_id=APP,
                                      wait=case["wait"])
            except SpiNNakerLoadingError as e:
                acc.violation(dict(kind="history_loading_error"),
                              rcase, "load %d of the history failed on a "
                              "fault-free machine: %s" % (i, e))
                return
            if sim.errors:
                acc.violation(dict(kind="history_malformed_fill"),
                              rcase,
                              "load %d of the history: machine saw %s"
                              % (i, sim.errors[0]))
                return
            bad = [(xy, p) for xy, ps in tg.items() for p in ps
                   if not loaded(sim, (xy, p), data,
                                 ST_WAIT if case["wait"] else ST_RUN)]
            if bad:
                acc.violation(dict(kind="history_wrong_image"), rcase,
                              "load %d of the history: cores %r do not hold "
                              "the %d bytes the file held when "
                              "load_application was called (they hold %r)"
                              % (i, bad, size,
                                 [sim.chips[xy].core_image[p][:8]
                                  for xy, p in bad]))
                return
    acc.outcome("history_ok")


def part_hist(params, tier, acc):
    # a long life of one controller: 140 consecutive loads (the flood-fill
    # identifier is a small cyclic counter)
    long_steps = [[1 + (i % 3), 20 + 4 * (i % 2),
                   [[i % 2, 0, [1 + i % 3]]]] for i in range(140)]
    hist_execution(dict(hist=True, steps=long_steps, wait=False), acc)
    for steps in HIST_STEPS:
        for wait in (False, True):
            st = [[g, sz, [[x, y, ps] for (x, y), ps in sorted(t.items())]]
                  for g, sz, t in steps]
            hist_execution(dict(hist=True, steps=st, wait=wait), acc)
    acc.sample(dict(part="hist", histories=len(HIST_STEPS) * 2))


def _drop_tmp():
    # pool workers leave through os._exit (no atexit): the scratch directory
    # of the binaries is removed at the end of every shard / replay
    global _tmp
    if _tmp is not None:
        shutil.rmtree(_tmp, True)
        _tmp = None


def run_shard(params, tier, acc):
    try:
        if params["part"] == "hist":
            part_hist(params, tier, acc)
        elif params["part"] == "A":
            part_A(params, tier, acc)
        elif params["part"] == "B":
            part_B(params, tier, acc)
        else:
            part_big(params, tier, acc)
    finally:
        _drop_tmp()


def replay(case, acc):
    try:
        _replay(case, acc)
    finally:
        _drop_tmp()


def _replay(case, acc):
    if case.get("hist"):
        if case.get("long"):
            part_hist({}, "quick", acc)
        else:
            hist_execution(case, acc)
        return
    cfg = case["cfg"]
    ch = Chooser(case["choices"])
    if "custom_map" in cfg:
        run_one_big(cfg, ch, acc)
    else:
        run_one(cfg, ch, acc)


def selftest():
    assert region_covers(0x00030001, 0, 0) and not region_covers(0x00030001,
                                                                 1, 0)
