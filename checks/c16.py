"""C16 - fixed-point conversion saturates, is monotone and inverts exactly.

E3 over a breakpoint alphabet: the conversion is piecewise constant and
claimed monotone, so it is decided at its breakpoints: for every format and
every output level (all levels for 8/16-bit formats, boundary levels for
wider ones) the float k/2^frac, its two neighbours and the neighbours of
(k+-1)/2^frac, plus extremes.  Reference: exact integer arithmetic on
float.as_integer_ratio()."""
import math

import numpy as np

PROPERTY = "C16"
LEVEL = "exploration"
TECHNIQUE = ("exhaustive enumeration of every breakpoint (with float "
             "neighbours) of every fixed-point format against exact rational "
             "arithmetic; element-wise scalar/array/deprecated agreement")
RULE = ("formats: signed/unsigned x bits {8,12,16,24,32,64} x n_frac; per "
        "format every output level k (8/16-bit: all; else boundary set) -> "
        "floats k/2^frac, nextafter both ways, plus +-0, subnormal, huge, "
        "range ends +- 1 ulp. Exhaustive over this alphabet, not over the "
        "float line. Non-trivial: every (format, float) pair; distinct by "
        "construction after de-duplication per format")
ASSUMPTIONS = [
    "inputs are float64; scaling by 2^n_frac is exact for finite results",
    "fix->float->fix identity is demanded only for fixed-point values that "
    "are exactly representable as a float64 (no float-valued converter can "
    "round-trip 64-bit values with more than 53 significant bits)",
    "a defect that occurs only strictly between breakpoints of a "
    "piecewise-constant monotone map would show as non-monotonicity at a "
    "neighbour, which is covered; special-casing of one non-boundary bit "
    "pattern would not be",
]

ARRAY_BITS = (8, 16, 32, 64)


def scope(tier):
    q = tier == "quick"
    return dict(bits=[8, 12, 16, 24, 32, 64],
                fracs_16=[0, 1, 8, 15, 16] if q else "all",
                all_levels_up_to_bits=16)


def formats(tier):
    out = []
    for bits in (8, 12, 16, 24, 32, 64):
        fr = range(bits + 1)
        if tier == "quick":
            if bits == 16:
                fr = [0, 1, 8, 15, 16]
            elif bits > 16:
                fr = sorted(set([0, 1, 2, bits // 2, bits - 2, bits - 1,
                                 bits]))
        for signed in (True, False):
            for f in fr:
                out.append((signed, bits, f))
            # negative n_frac: a least significant bit worth 2^-n_frac > 1
            if bits in (8, 16, 32):
                for f in (-1, -3):
                    out.append((signed, bits, f))
    return out


def shards(tier):
    return [dict(signed=s, bits=b, frac=f) for s, b, f in formats(tier)] + \
        [dict(history=k) for k in range(4)]


def run_history(k, acc):
    """Converter factories called one after another in one process: every
    ordered pair of formats from a family in which signed (n+1)-bit and
    unsigned n-bit formats share their upper limit."""
    from rig import type_casts as tc
    fam = [(sg, b, f) for sg in (False, True)
           for b in (7, 8, 9, 10, 16, 17, 32, 33) for f in (0, 4)]
    pts = [-1e30, -300.5, -16.0, -1.0, -0.03, 0.0, 0.49, 1.0, 15.9, 16.0,
           255.0, 256.0, 511.9, 70000.7, 1e30]
    i = -1
    for A in fam:
        for B in fam:
            i += 1
            if i % 4 != k or A == B:
                continue
            acc.evaluations += 1
            acc.nontrivial += 1
            try:
                fa = tc.float_to_fp(*A)
                fb = tc.float_to_fp(*B)
                bad = [(F, x, f(x), reference(x, *F))
                       for F, f in ((A, fa), (B, fb)) for x in pts
                       if f(x) != reference(x, *F)]
                ga = tc.fp_to_float(A[2])
                gb = tc.fp_to_float(B[2])
                if ga(8) != 8 / float(1 << A[2]) or \
                        gb(-8) != -8 / float(1 << B[2]):
                    bad.append(("fp_to_float", A, B))
            except Exception as e:
                bad = [repr(e)]
            if bad:
                acc.violation(dict(kind="factory_history"),
                              dict(history=k, A=list(A), B=list(B)),
                              "after creating float_to_fp%r and then "
                              "float_to_fp%r: %r" % (A, B, bad[:2]))
                return
    acc.sample(dict(history=k, formats=len(fam)))


def limits(signed, bits):
    if signed:
        return -(1 << (bits - 1)), (1 << (bits - 1)) - 1
    return 0, (1 << bits) - 1


def reference(f, signed, bits, frac):
    """clamp(trunc(f * 2^frac)) in exact integer arithmetic."""
    n, d = f.as_integer_ratio()
    q = (abs(n) << frac) // d if frac >= 0 else abs(n) // (d << -frac)
    if n < 0:
        q = -q
    lo, hi = limits(signed, bits)
    return max(lo, min(hi, q))


def alphabet(signed, bits, frac):
    lo, hi = limits(signed, bits)
    if bits <= 16:
        levels = range(lo - 2, hi + 3)
    else:
        ls = {lo, lo + 1, lo + 2, -2, -1, 0, 1, 2, hi - 2, hi - 1, hi, hi + 1,
              lo - 1, lo - 2, hi + 2}
        for j in range(bits + 1):
            for s in (1, -1):
                for dlt in (-1, 0, 1):
                    ls.add(s * (1 << j) + dlt)
        levels = sorted(ls)
    fl = set()
    inf = float("inf")
    for k in levels:
        try:
            if frac >= 0:
                x = k / float(1 << frac) if abs(k) < (1 << 1000) else None
            else:
                x = float(k) * 2.0 ** -frac
                # the values between two levels
                for dlt in (1.0, 2.0 ** -frac - 1.0, 2.0 ** -frac / 2):
                    fl.add(x + dlt)
                    fl.add(x - dlt)
        except OverflowError:
            x = None
        if x is None:
            continue
        fl.add(x)
        fl.add(math.nextafter(x, inf))
        fl.add(math.nextafter(x, -inf))
    big = 1.7e308 / 2.0 ** frac
    for x in (0.0, -0.0, 5e-324, -5e-324, 1e30, -1e30, big, -big, 0.5, -0.5,
              1.0 - 2 ** -53, 2.0 ** -frac, -(2.0 ** -frac), 1e-310):
        fl.add(x)
    out = sorted(x for x in fl if math.isfinite(x) and
                 math.isfinite(x * 2.0 ** frac))
    return out


def run_format(signed, bits, frac, acc, floats=None):
    from rig import type_casts as tc
    import warnings
    lo, hi = limits(signed, bits)
    fmt = dict(signed=signed, bits=bits, frac=frac)
    fl = alphabet(signed, bits, frac) if floats is None else floats
    conv = tc.float_to_fp(signed, bits, frac)
    back = tc.fp_to_float(frac)
    refs = []
    prev = None
    step = 2.0 ** -frac
    for x in fl:
        acc.evaluations += 1
        acc.nontrivial += 1
        want = reference(x, signed, bits, frac)
        refs.append(want)
        case = dict(fmt, x=x.hex())
        try:
            got = conv(x)
        except Exception as e:
            acc.violation(dict(kind="scalar_exception", bits=bits), case,
                          "float_to_fp%r(%r) raised %s: %s"
                          % ((signed, bits, frac), x, type(e).__name__, e))
            continue
        if got != want or isinstance(got, float):
            acc.violation(dict(kind="scalar_value", bits=bits), case,
                          "float_to_fp%r(%r [%s]) = %r, exact scaled/"
                          "truncated/clamped value is %r"
                          % ((signed, bits, frac), x, x.hex(), got, want))
            continue
        acc.outcome("low" if want == lo and x * 2.0 ** frac < lo else
                    "high" if want == hi and x * 2.0 ** frac > hi else "in")
        if prev is not None and got < prev:
            acc.violation(dict(kind="not_monotone", bits=bits), case,
                          "float_to_fp%r not monotone at %r" %
                          ((signed, bits, frac), x))
        prev = got
        sx = x * 2.0 ** frac
        if lo <= sx <= hi and abs(got - sx) >= 1:
            acc.violation(dict(kind="step", bits=bits), case,
                          "in-range %r converts to %r: off by a whole step"
                          % (x, got))
    # fix -> float -> fix on every level that a double holds exactly
    if bits <= 16:
        levels = range(lo, hi + 1)
    else:
        levels = sorted(set(r for r in refs))
    for k in levels:
        if abs(k) >= (1 << 53) and k != float(k):
            continue
        if abs(k) >= (1 << 53) and int(float(k)) != k:
            continue
        acc.evaluations += 1
        try:
            f = back(k)
            k2 = conv(f)
        except Exception as e:
            f, k2 = None, "%s: %s" % (type(e).__name__, e)
        if k2 != k:
            acc.violation(dict(kind="inverse", bits=bits),
                          dict(fmt, level=k),
                          "fp_to_float(%d)(%d) = %r converts back to %r"
                          % (frac, k, f, k2))
    # deprecated variants agree modulo 2^bits
    if frac >= 0 and frac + (1 if signed else 0) <= bits:
        with warnings.catch_warnings():
            warnings.simplefilter("ignore")
            try:
                old = tc.float_to_fix(signed, bits, frac)
                oldback = tc.fix_to_float(signed, bits, frac)
            except Exception as e:
                old = None
                acc.violation(dict(kind="deprecated_exception", bits=bits),
                              dict(fmt), "float_to_fix%r raised %r"
                              % ((signed, bits, frac), e))
        if old is not None:
            sub = fl if len(fl) < 3000 else fl[::37] + fl[:40] + fl[-40:]
            for x in sub:
                acc.evaluations += 1
                want = reference(x, signed, bits, frac) % (1 << bits)
                case = dict(fmt, x=x.hex(), deprecated=True)
                try:
                    with warnings.catch_warnings():
                        warnings.simplefilter("ignore")
                        got = old(x)
                        if got != want:
                            raise ValueError("= %r, new variant modulo 2^%d "
                                             "is %r" % (got, bits, want))
                        f_old = oldback(got)
                        f_new = back(reference(x, signed, bits, frac))
                        if f_old != f_new:
                            raise ValueError("fix_to_float(%r) = %r, "
                                             "fp_to_float gives %r"
                                             % (got, f_old, f_new))
                except Exception as e:
                    acc.violation(dict(kind="deprecated", bits=bits), case,
                                  "float_to_fix%r(%r): %s"
                                  % ((signed, bits, frac), x, e))
    # array converters agree element for element
    if bits in ARRAY_BITS:
        try:
            aconv = tc.NumpyFloatToFixConverter(signed, bits, frac)
            aback = tc.NumpyFixToFloatConverter(frac)
        except Exception as e:
            acc.violation(dict(kind="array_exception", bits=bits), dict(fmt),
                          "NumpyFloatToFixConverter%r raised %r"
                          % ((signed, bits, frac), e))
            return
        arr = np.array(fl, dtype=np.float64)
        acc.evaluations += len(fl)
        try:
            with warnings.catch_warnings():
                warnings.simplefilter("ignore")
                got = aconv(arr)
        except Exception as e:
            acc.violation(dict(kind="array_exception", bits=bits), dict(fmt),
                          "array conversion raised %s: %s"
                          % (type(e).__name__, e))
            return
        exp_dtype = np.dtype("%sint%d" % ("" if signed else "u", bits))
        if got.dtype != exp_dtype or got.shape != arr.shape:
            acc.violation(dict(kind="array_dtype", bits=bits), dict(fmt),
                          "array result dtype %s shape %s" % (got.dtype,
                                                              got.shape))
            return
        gl = [int(v) for v in got]
        for x, g, w in zip(fl, gl, refs):
            if g != w:
                acc.violation(
                    dict(kind="array_value", bits=bits,
                         end="high" if w == hi else "low" if w == lo
                         else "in"),
                    dict(fmt, x=x.hex(), array=True),
                    "NumpyFloatToFixConverter%r(%r [%s]) = %r, scalar/exact "
                    "value is %r" % ((signed, bits, frac), x, x.hex(), g, w),
                    size=bits)
                break
        # element-wise: the result for one element must not depend on what
        # else is in the array (every value alone, and next to an in-range
        # neighbour; the full-alphabet array above always contains values
        # beyond both ends)
        for x, w in zip(fl, refs):
            for a in (np.array([x], dtype=np.float64),
                      np.array([[0.0, x]], dtype=np.float64),
                      np.array(x, dtype=np.float64)):     # zero-dimensional
                acc.evaluations += 1
                try:
                    with warnings.catch_warnings():
                        warnings.simplefilter("ignore")
                        g = int(aconv(a).reshape(-1)[-1])
                except Exception as e:
                    g = e
                if g != w:
                    acc.violation(
                        dict(kind="array_value_alone", bits=bits,
                             end="high" if w == hi else "low" if w == lo
                             else "in"),
                        dict(fmt, x=x.hex(), array=True),
                        "NumpyFloatToFixConverter%r(array%r) gives %r for "
                        "%r [%s], scalar/exact value is %r"
                        % ((signed, bits, frac), a.shape, g, x, x.hex(), w),
                        size=bits)
                    break
            else:
                continue
            break
        # shapes
        pick = [fl[0], fl[len(fl) // 2], fl[-1], fl[len(fl) // 3]]
        for shape in ((), (1,), (3,), (2, 2)):
            n = int(np.prod(shape)) if shape else 1
            a = np.array(pick[:n], dtype=np.float64).reshape(shape)
            acc.evaluations += 1
            try:
                with warnings.catch_warnings():
                    warnings.simplefilter("ignore")
                    r = aconv(a)
                ok = (r.shape == a.shape and
                      [int(v) for v in r.reshape(-1)] ==
                      [reference(x, signed, bits, frac) for x in pick[:n]])
            except Exception as e:
                ok = False
                r = e
            if not ok:
                acc.violation(dict(kind="array_shape", bits=bits,
                                   shape=list(shape)),
                              dict(fmt, shape=list(shape), array=True),
                              "shape %r: converter gives %r" % (shape, r))
        # memory layouts: Fortran order, transposed, strided views
        m2 = (len(fl) // 2) * 2
        base = np.array(fl[:m2], dtype=np.float64)
        want2 = refs[:m2]
        layouts = {
            "fortran": (np.asfortranarray(base.reshape(2, -1)),
                        lambda r: [int(v) for v in np.ascontiguousarray(r)
                                   .reshape(-1)]),
            "transposed": (base.reshape(-1, 2).T,
                           lambda r: [int(v) for v in np.ascontiguousarray(
                               r.T).reshape(-1)]),
            "strided": (np.repeat(base, 2)[::2],
                        lambda r: [int(v) for v in r]),
            "3d_swapped": (base[:(m2 // 4) * 4].reshape(2, 2, -1)
                           .swapaxes(0, 2),
                           lambda r: [int(v) for v in np.ascontiguousarray(
                               r.swapaxes(0, 2)).reshape(-1)]),
        }
        for lname, (arr2, flat) in layouts.items():
            acc.evaluations += 1
            try:
                with warnings.catch_warnings():
                    warnings.simplefilter("ignore")
                    r = aconv(arr2)
                got2 = flat(r)
                ok = (r.shape == arr2.shape and
                      got2 == want2[:len(got2)])
            except Exception as e:
                ok = False
                got2 = repr(e)
            if not ok:
                acc.violation(dict(kind="array_layout", bits=bits,
                                   layout=lname),
                              dict(fmt, array=True, layout=lname),
                              "array converter on a %s array disagrees with "
                              "the scalar converter" % lname)
        # two conversions with one converter: an earlier result must not
        # change (results are independent arrays)
        half = len(fl) // 2
        for shape_n in (1, 3, min(half, 50)):
            a1 = np.array(fl[:shape_n], dtype=np.float64)
            a2 = np.array(fl[-shape_n:], dtype=np.float64)
            acc.evaluations += 1
            try:
                with warnings.catch_warnings():
                    warnings.simplefilter("ignore")
                    r1 = aconv(a1)
                    keep = [int(v) for v in r1]
                    r2 = aconv(a2)
                    f1 = aback(r1)
                    keepf = [float(v) for v in f1]
                    f2 = aback(r2)
                ok = ([int(v) for v in r1] == keep and
                      [float(v) for v in f1] == keepf and
                      [int(v) for v in r2] == refs[-shape_n:] and
                      r1 is not r2)
            except Exception as e:
                ok = False
            if not ok:
                acc.violation(dict(kind="array_result_aliased", bits=bits),
                              dict(fmt, array=True, twice=shape_n),
                              "converting a second array of %d values "
                              "changed the result of the first conversion"
                              % shape_n)
                break
        # array inverse on exactly representable levels
        lv = [k for k in sorted(set(refs)) if abs(k) < (1 << 53)]
        ia = np.array(lv, dtype=exp_dtype)
        try:
            with warnings.catch_warnings():
                warnings.simplefilter("ignore")
                fa = aback(ia)
                ra = aconv(fa)
            bad = [(k, float(f), int(r)) for k, f, r in zip(lv, fa, ra)
                   if int(r) != k or float(f) != (k / float(1 << frac) if frac >= 0 else k * 2.0 ** -frac)]
        except Exception as e:
            bad = [repr(e)]
        if bad:
            acc.violation(dict(kind="array_inverse", bits=bits), dict(fmt),
                          "array fix->float->fix: %r" % (bad[:3],))
        # float32 input arrays (each element is the double it converts to)
        a32 = np.array([x for x in fl if abs(x) < 3e38], dtype=np.float32)
        a32 = a32[np.isfinite(a32)]
        if len(a32) > 4000:
            a32 = np.concatenate([a32[::29], a32[:60], a32[-60:]])
        acc.evaluations += len(a32)
        try:
            with warnings.catch_warnings():
                warnings.simplefilter("ignore")
                r32 = aconv(a32)
            want32 = [reference(float(v), signed, bits, frac) for v in a32]
            bad32 = [(float(v), int(r), w_) for v, r, w_ in
                     zip(a32, r32, want32) if int(r) != w_]
        except Exception as e:
            bad32 = [repr(e)]
        if bad32:
            acc.violation(dict(kind="array_float32", bits=bits), dict(fmt),
                          "float32 input array: (value, converted, exact) = "
                          "%r" % (bad32[:3],))
        # fix -> float on the extreme words of both integer types of this
        # width (the sign comes from the array's dtype alone)
        for dt_signed in (False, True):
            dt = np.dtype("%s%d" % ("int" if dt_signed else "uint", bits))
            if dt_signed:
                words = [-(1 << (bits - 1)), -(1 << (bits - 1)) + 1, -2, -1,
                         0, 1, (1 << (bits - 1)) - 1]
            else:
                off = (1 << 11) if bits == 64 else 1
                words = [0, 1, (1 << (bits - 1)) - 1, 1 << (bits - 1),
                         (1 << (bits - 1)) + off, (1 << bits) - 1,
                         (1 << bits) - off]
            acc.evaluations += len(words)
            try:
                with warnings.catch_warnings():
                    warnings.simplefilter("ignore")
                    fw = aback(np.array(words, dtype=dt))
                badw = [(k, float(f)) for k, f in zip(words, fw)
                        if float(f) != float(k) * 2.0 ** -frac]
            except Exception as e:
                badw = [repr(e)]
            if badw:
                acc.violation(dict(kind="array_fix_to_float", bits=bits,
                                   dtype=str(dt)), dict(fmt),
                              "NumpyFixToFloatConverter(%d) on %s words: %r "
                              "(word, float) are not word / 2^n_frac"
                              % (frac, dt, badw[:3]))
    acc.sample(dict(fmt, floats=len(fl), first=fl[0], last=fl[-1]))


def run_shard(params, tier, acc):
    if "history" in params:
        run_history(params["history"], acc)
        return
    run_format(params["signed"], params["bits"], params["frac"], acc)


def replay(case, acc):
    if "history" in case:
        run_history(case["history"], acc)
        return
    run_format(case["signed"], case["bits"], case["frac"], acc)


def selftest():
    assert reference(0.5, True, 8, 4) == 8
    assert reference(-0.5, True, 8, 4) == -8
    assert reference(-0.5, False, 8, 4) == 0
    assert reference(16.0, False, 8, 4) == 255
    assert reference(-0.03, True, 8, 4) == 0       # truncation toward zero
    assert reference(1e30, True, 64, 0) == 2 ** 63 - 1
    assert reference(-1e30, True, 64, 0) == -2 ** 63
