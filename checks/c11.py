"""C11 - hexagonal mesh and torus path functions return true shortest paths.

Complete enumeration (E3) of all torus sizes up to a bound, all source /
destination pairs, several three-axis representations, and *every* outcome of
the random tie-breaks (E5: the module attribute `random` of rig.geometry and
rig.place_and_route.route.utils is replaced by an owned source and all of its
answers are enumerated by the E1 explorer with no deviation bound).  Ground
truth is breadth-first distance on the explicit six-neighbour graph."""
import collections
import itertools

from mc.explore import explore, FakeRandom, Chooser

PROPERTY = "C11"
LEVEL = "exploration"
TECHNIQUE = ("bounded-exhaustive enumeration of all torus sizes/pairs with "
             "full enumeration of owned random tie-breaks against a BFS oracle")
RULE = ("every (w,h) up to the bound x every source/destination pair x "
        "three-axis representations x every answer of the owned random "
        "source; a case is non-trivial when source != destination (distinct "
        "by construction: shards partition (w,h), the enumerator visits each "
        "(src,dst,representation) once)")
ASSUMPTIONS = [
    "random() is only used as additive noise < 1 on integer keys, so a menu "
    "of 3 distinct values per draw reaches every induced order of <=3 tied "
    "candidates and every winner among <=4",
    "ground truth: BFS on the explicit hexagonal neighbour graph",
]

NEIGH = [(1, 0), (-1, 0), (0, 1), (0, -1), (1, 1), (-1, -1)]
KS = (-1, 0, 2)
# quick tier: tie-breaks are enumerated for these representation pairs only
# (lengths are checked for all nine); thorough: all nine
NOISE_REPS = ((0, 0), (-1, 2), (2, -1))


def scope(tier):
    n = 8 if tier == "quick" else 12
    return dict(max_width=n, max_height=n,
                narrow="1..4 x %d..%d and transposed" % (
                    n + 1, 12 if tier == "quick" else 24),
                representations=list(KS),
                random="all outcomes (menu of 3 values per random() draw, "
                       "every randint value)",
                hexagon_radius=12 if tier == "quick" else 20)


def shards(tier):
    n = scope(tier)["max_width"]
    out = [dict(kind="torus", w=w, h=h) for w in range(1, n + 1)
           for h in range(1, n + 1)]
    # narrow tori (spiral paths need a side much longer than the other)
    m = 12 if tier == "quick" else 24
    for a in (1, 2, 3, 4):
        for b in range(n + 1, m + 1):
            out.append(dict(kind="torus", w=a, h=b, narrow=1))
            out.append(dict(kind="torus", w=b, h=a, narrow=1))
    out += [dict(kind="torus_history", w=w) for w in range(1, 7)]
    out.append(dict(kind="mesh"))
    out.append(dict(kind="links"))
    out.append(dict(kind="hexagons"))
    return out


# ----------------------------------------------------------------- oracles
def bfs(start, neighbours):
    dist = {start: 0}
    q = collections.deque([start])
    while q:
        c = q.popleft()
        for n in neighbours(c):
            if n not in dist:
                dist[n] = dist[c] + 1
                q.append(n)
    return dist


_mesh = None


def mesh_dist():
    global _mesh
    if _mesh is None:
        R = 45

        def nb(c):
            for dx, dy in NEIGH:
                n = (c[0] + dx, c[1] + dy)
                if abs(n[0]) <= R and abs(n[1]) <= R:
                    yield n
        _mesh = bfs((0, 0), nb)
    return _mesh


def torus_dist(w, h, src):
    def nb(c):
        for dx, dy in NEIGH:
            yield ((c[0] + dx) % w, (c[1] + dy) % h)
    return bfs(src, nb)


def selftest():
    d = mesh_dist()
    assert d[(1, 1)] == 1 and d[(1, -1)] == 2 and d[(-3, 2)] == 5
    assert d[(5, 3)] == 5 and d[(-2, -7)] == 7
    t = torus_dist(4, 4, (0, 0))
    assert t[(3, 3)] == 1 and t[(2, 2)] == 2 and t[(3, 1)] == 2
    assert torus_dist(1, 1, (0, 0)) == {(0, 0): 0}


def guarded(fn, *a):
    """Exceptions of the code under test are observations, not crashes."""
    try:
        return fn(*a)
    except Exception as e:
        return "%s: %s" % (type(e).__name__, e)


def rep(c, k):
    return (c[0] + k, c[1] + k, k)


def proj(v):
    return (v[0] - v[2], v[1] - v[2])


# -------------------------------------------------------------- exploration
def with_owned_random(fn, on_result, acc, budget=200):
    """Run fn() under every answer sequence of the owned random source."""
    from rig import geometry
    from rig.place_and_route.route import utils as rutils
    saved = geometry.random, rutils.random

    def run(ch):
        fr = FakeRandom(ch, menu=3)
        geometry.random = rutils.random = fr
        try:
            res = fn()
        finally:
            geometry.random, rutils.random = saved
        on_result(res, list(ch.choices))
    try:
        return explore(run, bound=None, budget=budget)
    finally:
        geometry.random, rutils.random = saved


def run_with_choices(fn, choices):
    from rig import geometry
    from rig.place_and_route.route import utils as rutils
    saved = geometry.random, rutils.random
    ch = Chooser(choices)
    geometry.random = rutils.random = FakeRandom(ch, menu=3)
    try:
        return fn()
    finally:
        geometry.random, rutils.random = saved


def check_ldf(acc, vector, start, w, h, case):
    """longest_dimension_first on one vector under all tie-break orders."""
    from rig.place_and_route.route.utils import longest_dimension_first
    from rig.links import Links
    hops = sum(abs(c) for c in vector)
    dx, dy = proj(vector)
    def wrap(p):
        # each axis wraps on its own (width or height may be None)
        return (p[0] if w is None else p[0] % w,
                p[1] if h is None else p[1] % h)
    end = wrap((start[0] + dx, start[1] + dy))
    seen_orders = set()

    def judge(path, choices):
        acc.evaluations += 1
        c = dict(case, fn="ldf", vector=list(vector), start=list(start),
                 choices=choices)
        if not isinstance(path, list) or len(path) != hops:
            acc.violation(dict(kind="ldf_length"), c,
                          "longest_dimension_first%r from %r: %d hops, "
                          "vector has %d" % (vector, start, len(path) if
                                             isinstance(path, list) else -1,
                                             hops) + " " + repr(path)[:200])
            return
        pos = tuple(start)
        for d, nxt in path:
            vx, vy = Links(d).to_vector()
            exp = wrap((pos[0] + vx, pos[1] + vy))
            if tuple(nxt) != exp or not isinstance(d, Links):
                acc.violation(dict(kind="ldf_step"), c,
                              "longest_dimension_first%r from %r (w=%r,h=%r): "
                              "step %r labelled %r does not lead from %r"
                              % (vector, start, w, h, nxt, d, pos))
                return
            pos = tuple(nxt)
        if pos != end:
            acc.violation(dict(kind="ldf_end"), c,
                          "longest_dimension_first%r from %r ends at %r, "
                          "expected %r" % (vector, start, pos, end))
        seen_orders.add(tuple(d for d, _ in path))
        # the list belongs to the caller, who may do with it what they like:
        # later calls (same vector, other tie-breaks, other starts) must not
        # see the difference
        del path[:]

    with_owned_random(
        lambda: guarded(longest_dimension_first, vector, start, w, h),
        judge, acc)
    # with ties between non-zero dimensions several orders must be reachable
    mags = sorted(abs(c) for c in vector if c)
    if len(mags) >= 2 and mags[-1] == mags[-2] and len(seen_orders) < 2:
        acc.violation(dict(kind="ldf_tiebreak_not_random"),
                      dict(case, fn="ldf", vector=list(vector),
                           start=list(start), choices=[]),
                      "tied dimensions of %r are always walked in one order"
                      % (vector,))
    acc.outcome("ldf_orders=%d" % len(seen_orders))


def run_torus(w, h, tier, acc, narrow=False):
    from rig import geometry
    chips = [(x, y) for x in range(w) for y in range(h)]
    for s in chips:
        dist = torus_dist(w, h, s)
        for d in chips:
            truth = dist[d]
            for ks in KS:
                for kd in KS:
                    s3, d3 = rep(s, ks), rep(d, kd)
                    case = dict(kind="torus", w=w, h=h, src=list(s3),
                                dst=list(d3))
                    if s != d:
                        acc.nontrivial += 1
                    acc.evaluations += 1
                    try:
                        got = geometry.shortest_torus_path_length(s3, d3, w, h)
                    except Exception as e:
                        got = "%s: %s" % (type(e).__name__, e)
                    if got != truth:
                        acc.violation(
                            dict(kind="torus_length"),
                            dict(case, fn="torus_length"),
                            "shortest_torus_path_length(%r,%r,%d,%d)=%r, BFS "
                            "distance is %d" % (s3, d3, w, h, got, truth),
                            size=w * h)
                    # every outcome of the tie-break
                    vectors = set()

                    def judge(v, choices):
                        acc.evaluations += 1
                        c = dict(case, fn="torus_path", choices=choices)
                        ok = (isinstance(v, tuple) and len(v) == 3 and
                              sum(abs(x) for x in v) == truth)
                        if ok:
                            px, py = proj(v)
                            ok = ((s[0] + px) % w == d[0] and
                                  (s[1] + py) % h == d[1])
                        if not ok:
                            acc.violation(
                                dict(kind="torus_path"), c,
                                "shortest_torus_path(%r,%r,%d,%d)=%r under "
                                "tie-break %r: BFS distance %d, must reach %r"
                                % (s3, d3, w, h, v, choices, truth, d),
                                size=w * h)
                        if ok:
                            vectors.add(tuple(v))
                    if tier == "quick" and (ks, kd) not in (
                            NOISE_REPS[:1] if narrow else NOISE_REPS):
                        continue
                    n = with_owned_random(
                        lambda: guarded(geometry.shortest_torus_path,
                                        s3, d3, w, h),
                        judge, acc)
                    acc.outcome("torus_path_vectors=%d" % len(vectors))
                    if ks == 0 and kd == 0:
                        for v in sorted(vectors):
                            check_ldf(acc, v, s, w, h, case)
            # the same chips named by coordinates several periods outside
            # the canonical range
            for (a, b, k) in ((-2, -2, 0), (3, 0, 0), (0, 2, 1), (-2, 1, -3)):
                d3 = (d[0] + a * w + k, d[1] + b * h + k, k)
                s3 = (s[0] - b * w, s[1] + a * h, 0)
                acc.evaluations += 1
                try:
                    got = geometry.shortest_torus_path_length(s3, d3, w, h)
                    v = geometry.shortest_torus_path(s3, d3, w, h)
                    px, py = proj(v)
                    if sum(abs(x) for x in v) != truth or \
                            ((s[0] + px) % w, (s[1] + py) % h) != d:
                        got = "path %r" % (v,)
                except Exception as e:
                    got = "%s: %s" % (type(e).__name__, e)
                if got != truth:
                    acc.violation(
                        dict(kind="torus_far_representation"),
                        dict(kind="torus", w=w, h=h, src=list(s3),
                             dst=list(d3), fn="torus_length"),
                        "shortest_torus_path(_length)(%r, %r, %d, %d) gives "
                        "%r, BFS distance between those chips is %d"
                        % (s3, d3, w, h, got, truth), size=w * h)
            if acc.evaluations % 50 == 0:
                acc.sample(dict(w=w, h=h, src=s, dst=d, bfs_distance=truth))
    acc.sample(dict(w=w, h=h, pairs=len(chips) ** 2))


def run_torus_history(wa, tier, acc):
    """Call histories across tori: every source/destination pair on torus A,
    then every pair on torus B (all ordered pairs A != B from 1..6 x 1..6
    sharing a width, a height, or transposed).  B's answers must be B's BFS
    distances whatever was asked before."""
    from rig import geometry
    for ha in range(1, 7):
        others = [(wa, h) for h in range(1, 7) if h != ha] + \
            [(w, ha) for w in range(1, 7) if w != wa]
        if wa != ha:
            others.append((ha, wa))
        for wb, hb in others:
            bad = None
            for (w, h) in ((wa, ha), (wb, hb)):
                chips = [(x, y) for x in range(w) for y in range(h)]
                for s in chips:
                    dist = torus_dist(w, h, s)
                    for d in chips:
                        acc.evaluations += 1
                        acc.nontrivial += 1
                        try:
                            got = geometry.shortest_torus_path_length(
                                rep(s, 0), rep(d, 0), w, h)
                            v = geometry.shortest_torus_path(
                                rep(s, 0), rep(d, 0), w, h)
                            if sum(abs(c) for c in v) != dist[d]:
                                got = "path %r" % (v,)
                        except Exception as e:
                            got = "%s: %s" % (type(e).__name__, e)
                        if got != dist[d] and bad is None:
                            bad = (w, h, s, d, got, dist[d])
            if bad:
                acc.violation(
                    dict(kind="torus_history"),
                    dict(kind="torus_history", wa=wa, a=[wa, ha],
                         b=[wb, hb]),
                    "after querying every pair on a %dx%d torus and then "
                    "every pair on a %dx%d torus: on %dx%d, %r -> %r gives "
                    "%r, BFS distance is %r"
                    % ((wa, ha, wb, hb) + bad), size=wa * ha + wb * hb)
            acc.outcome("history_pair")
    acc.sample(dict(kind="torus_history", wa=wa))


def run_mesh(tier, acc):
    from rig import geometry
    md = mesh_dist()
    n = 8 if tier == "quick" else 12
    rng = range(-n + 1, n)
    # mesh distance only depends on the difference; enumerate differences and
    # representations of both ends at two absolute positions
    for dx in rng:
        for dy in rng:
            truth = md[(dx, dy)]
            for base in ((0, 0), (3, 5)):
                s = base
                d = (base[0] + dx, base[1] + dy)
                for ks in KS:
                    for kd in KS:
                        s3, d3 = rep(s, ks), rep(d, kd)
                        case = dict(kind="mesh", src=list(s3), dst=list(d3))
                        acc.evaluations += 2
                        if (dx, dy) != (0, 0):
                            acc.nontrivial += 1
                        got = guarded(geometry.shortest_mesh_path_length,
                                      s3, d3)
                        if got != truth:
                            acc.violation(
                                dict(kind="mesh_length"),
                                dict(case, fn="mesh_length"),
                                "shortest_mesh_path_length(%r,%r)=%r, BFS "
                                "distance %d" % (s3, d3, got, truth),
                                size=abs(dx) + abs(dy))
                        v = guarded(lambda: tuple(
                            geometry.shortest_mesh_path(s3, d3)))
                        if (not isinstance(v, tuple) or
                                sum(abs(c) for c in v) != truth or
                                proj(v) != (dx, dy)):
                            acc.violation(
                                dict(kind="mesh_path"),
                                dict(case, fn="mesh_path"),
                                "shortest_mesh_path(%r,%r)=%r: BFS distance "
                                "%d, difference %r" % (s3, d3, v, truth,
                                                       (dx, dy)),
                                size=abs(dx) + abs(dy))
                        if isinstance(v, tuple) and ks == 0 and kd == 0 \
                                and base == (0, 0) and \
                                abs(dx) <= 5 and abs(dy) <= 5:
                            check_ldf(acc, v, (2, 1), None, None, case)
                            if abs(dx) <= 3 and abs(dy) <= 3:
                                # wrap-around on one axis only
                                for ww, hh in ((4, None), (None, 3),
                                               (3, None), (None, 5)):
                                    check_ldf(acc, v, (2, 1), ww, hh,
                                              dict(case, one_axis=[ww, hh]))
    # minimise_xyz on every small triple
    for v in itertools.product(range(-4, 5), repeat=3):
        acc.evaluations += 1
        acc.nontrivial += 1
        m = tuple(geometry.minimise_xyz(v))
        if proj(m) != proj(v) or sum(abs(c) for c in m) != md[proj(v)]:
            acc.violation(dict(kind="minimise_xyz"),
                          dict(kind="mesh", fn="minimise_xyz", vector=list(v)),
                          "minimise_xyz(%r)=%r is not the minimal vector of "
                          "the same displacement (distance %d)"
                          % (v, m, md[proj(v)]), size=sum(map(abs, v)))
    acc.sample(dict(kind="mesh", differences=len(rng) ** 2))


def run_links(tier, acc):
    from rig.links import Links
    from rig.routing_table.entries import Routes
    case = dict(kind="links")
    vecs = {}
    for l in Links:
        acc.evaluations += 1
        acc.nontrivial += 1
        v = l.to_vector()
        vecs[l] = v
        o = l.opposite
        bad = None
        if guarded(Links.from_vector, v) != l:
            bad = "from_vector(to_vector(%r)) = %r" % (
                l, guarded(Links.from_vector, v))
        elif o.to_vector() != (-v[0], -v[1]):
            bad = "%r.opposite = %r whose vector is not the negation" % (l, o)
        elif o.opposite != l or not isinstance(o, Links):
            bad = "opposite of opposite of %r" % (l,)
        elif int(Routes(l)) != int(l) or not Routes(l).is_link or \
                int(Routes(l).opposite) != int(o):
            bad = "Routes(%r) inconsistent with Links" % (l,)
        if bad:
            acc.violation(dict(kind="links_table"), dict(case, link=int(l)),
                          bad)
    if sorted(vecs.values()) != sorted(NEIGH):
        acc.violation(dict(kind="links_table"), dict(case, link=-1),
                      "link vectors %r are not the six hexagonal neighbours"
                      % (vecs,))
    for n in range(18):
        acc.evaluations += 1
        r = Routes.core(n)
        if not r.is_core or r.is_link or r.core_num != n or int(r) != 6 + n:
            acc.violation(dict(kind="routes_core"), dict(case, core=n),
                          "Routes.core(%d) = %r" % (n, r))
    # wrap-around vectors on systems larger than 2x2
    n = 8 if tier == "quick" else 12
    for w in range(3, n + 1):
        for h in range(3, n + 1):
            for x in range(w):
                for y in range(h):
                    for l in Links:
                        acc.evaluations += 1
                        acc.nontrivial += 1
                        vx, vy = vecs[l]
                        bx, by = (x + vx) % w, (y + vy) % h
                        raw = (bx - x, by - y)
                        got = guarded(Links.from_vector, raw)
                        if got != l:
                            acc.violation(
                                dict(kind="links_from_vector_wrap"),
                                dict(case, w=w, h=h, a=[x, y], link=int(l)),
                                "from_vector(%r) between (%d,%d) and (%d,%d) "
                                "on %dx%d = %r, link is %r"
                                % (raw, x, y, bx, by, w, h, got, l),
                                size=w * h)
    # links_between on every torus 1..5 x 1..5 (non-square included): the
    # set of links joining a to b is exactly the links whose vector leads
    # from a to b modulo the size; one dead link is removed from it
    from rig.place_and_route.route.utils import links_between
    from rig.place_and_route import Machine
    for w in range(1, 6):
        for h in range(1, 6):
            chips = [(x, y) for x in range(w) for y in range(h)]
            for dead in (None, (0, 0, Links.north), (w - 1, h - 1,
                                                     Links.south_west)):
                m = Machine(w, h, dead_links=set([dead] if dead else []))
                for a in chips:
                    for b in chips:
                        acc.evaluations += 1
                        acc.nontrivial += 1
                        want = set(l for l in Links
                                   if ((a[0] + vecs[l][0]) % w,
                                       (a[1] + vecs[l][1]) % h) == b and
                                   (a[0], a[1], l) != dead)
                        got = guarded(links_between, a, b, m)
                        if got != want:
                            acc.violation(
                                dict(kind="links_between"),
                                dict(case, w=w, h=h, a=list(a), b=list(b)),
                                "links_between(%r, %r) on a %dx%d torus "
                                "(dead link %r) = %r, the links leading "
                                "from a to b are %r"
                                % (a, b, w, h, dead, got, want), size=w * h)
    acc.sample(dict(kind="links", table={l.name: vecs[l] for l in Links}))


def run_hexagons(tier, acc):
    from rig import geometry
    md = mesh_dist()
    R = scope(tier)["hexagon_radius"]
    for start in ((0, 0), (3, -2)):
        for r in range(R + 1):
            acc.evaluations += 1
            acc.nontrivial += 1
            got = list(geometry.concentric_hexagons(r, start))
            rel = [(x - start[0], y - start[1]) for x, y in got]
            want = set(c for c, d in md.items() if d <= r)
            dists = [md.get(c, 10 ** 6) for c in rel]
            bad = None
            if len(set(rel)) != len(rel):
                bad = "a chip is yielded twice"
            elif set(rel) != want:
                bad = "yields %d chips, %d are within distance" % (
                    len(rel), len(want))
            elif dists != sorted(dists):
                bad = "rings are not nearest first"
            if bad:
                acc.violation(dict(kind="hexagons"),
                              dict(kind="hexagons", radius=r,
                                   start=list(start)),
                              "concentric_hexagons(%d, %r): %s"
                              % (r, start, bad), size=r)
    # consumption histories: a generator abandoned after k chips (every k,
    # radii 1..4), then complete enumerations; the module is re-executed
    # before each history so that it starts from a fresh interpreter's state
    import importlib
    for rp in (1, 2, 3, 4):
        size = 1 + 3 * rp * (rp + 1)
        for k in range(0, size + 1):
            importlib.reload(geometry)
            acc.evaluations += 1
            acc.nontrivial += 1
            g = geometry.concentric_hexagons(rp)
            for _ in range(k):
                next(g, None)
            del g
            for r2 in (rp, rp + 1, max(0, rp - 1)):
                got = list(geometry.concentric_hexagons(r2, (1, 1)))
                rel = [(x - 1, y - 1) for x, y in got]
                want = set(c for c, d in md.items() if d <= r2)
                if len(set(rel)) != len(rel) or set(rel) != want:
                    acc.violation(
                        dict(kind="hexagons_history"),
                        dict(kind="hexagons", history=[rp, k, r2]),
                        "after abandoning concentric_hexagons(%d) after %d "
                        "chips, concentric_hexagons(%d, (1, 1)) yields %d "
                        "chips (%d distinct), %d are within distance"
                        % (rp, k, r2, len(rel), len(set(rel)), len(want)),
                        size=rp * 100 + k)
                    break
    importlib.reload(geometry)
    acc.sample(dict(kind="hexagons", max_radius=R))


def run_shard(params, tier, acc):
    k = params["kind"]
    if k == "torus":
        run_torus(params["w"], params["h"], tier, acc,
                  bool(params.get("narrow")))
    elif k == "torus_history":
        run_torus_history(params["w"], tier, acc)
    elif k == "mesh":
        run_mesh(tier, acc)
    elif k == "links":
        run_links(tier, acc)
    elif k == "hexagons":
        run_hexagons(tier, acc)


def replay(case, acc):
    """Re-run the one recorded case (all its tie-break outcomes)."""
    from rig import geometry
    k = case["kind"]
    if k == "torus":
        # re-run the whole (w,h,src,dst) cell: cheap and exact
        w, h = case["w"], case["h"]
        sub = type(acc)()
        run_torus_cell(w, h, case, sub)
        acc.violations.update(sub.violations)
    elif k == "torus_history":
        run_torus_history(case["wa"], "quick", acc)
    elif k == "mesh":
        run_mesh("thorough", acc)
    elif k == "links":
        run_links("thorough", acc)
    elif k == "hexagons":
        run_hexagons("thorough", acc)


def run_torus_cell(w, h, case, acc):
    # run the shard restricted to nothing smaller than the full size: the
    # enumeration is deterministic, so re-running the (w,h) shard reproduces it
    run_torus(w, h, "quick", acc)
