"""C10 - routing entries installed in a chip's router are the entries given.

E3.  (a) routing_tree_to_tables on every tree of a generated family and every
ordered pair of trees (sharing or not sharing key/mask) against an independent
traversal.  (b) load_routing_table_entries / load_routing_tables /
get_routing_table_entries on the real controller against the simulated
router: every route bit, pairs, link subsets, key/mask extremes, table lengths,
application ids, chips and free-list states."""
import itertools
import struct

from mc.ctl import Session
from mc.sim import SimMachine

PROPERTY = "C10"
LEVEL = "exploration"
TECHNIQUE = ("bounded-exhaustive enumeration of routing-tree sets against an "
             "independent traversal, and of routing tables x router free-list "
             "states on the real controller against a simulated router")
RULE = ("(a) family of trees on a 3x2 grid (all child subsets to depth 2 with "
        "leaf variants: core, link endpoint, no route), singly and in every "
        "ordered pair x {same, different} key/mask; (b) tables built from "
        "every single route bit, every pair, 64 link subsets x {none, one "
        "core, all cores}, key/mask extremes, lengths {1,2,3,16,1023,1024}, "
        "app ids {0,1,66,255}, chips {(0,0),(3,7)}, free-list states {empty, "
        "fragmented, exactly enough, one short, full}. Cases are distinct by "
        "construction; non-trivial = more than one entry / tree node")
ASSUMPTIONS = [
    "router entry 0 is reserved by the system (allocation returns 0 on "
    "failure) so at most 1023 entries can be loaded",
    "SimMachine's router commands follow the controller's docstrings; "
    "allocation of zero entries is unspecified and not exercised",
]

VEC = {0: (1, 0), 1: (1, 1), 2: (0, 1), 3: (-1, 0), 4: (-1, -1), 5: (0, -1)}


def repo():
    from mc.runner import REPO as R
    return R


def scope(tier):
    return dict(grid=[3, 2], tree_depth=2,
                lengths=[1, 2, 3, 16, 1023, 1024], app_ids=[0, 1, 66, 255])


def shards(tier):
    out = [dict(part="trees", k=k) for k in range(16)]
    out += [dict(part="router", sub=s) for s in
            ("bits", "links", "lengths", "freelist", "tables")]
    out += [dict(part="router", sub="pairs", k=k) for k in range(6)]
    return out


# ------------------------------------------------------------------ trees
# spec: (chip, [(route, child_spec | ("leaf", name))...])
def tree_family():
    fam = []
    leafsets = [[], [(7, "v")], [(None, "v")], [(3, "dev")],
                [(7, "v"), (8, "v")], [(None, "v"), (7, "w")]]
    # children of the root (0,0): subsets of E, N, NE
    for sub in itertools.chain.from_iterable(
            itertools.combinations((0, 2, 1), n) for n in range(0, 4)):
        for depth2 in ((), (0,), (2,), (0, 2)):
            for li, leaves in enumerate(leafsets):
                kids = []
                for l in sub:
                    cx, cy = VEC[l]
                    gk = []
                    for l2 in depth2:
                        dx, dy = VEC[l2]
                        gx, gy = cx + dx, cy + dy
                        if 0 <= gx < 3 and 0 <= gy < 2:
                            gk.append((l2, ((gx, gy), list(leafsets[1]))))
                    kids.append((l, ((cx, cy), gk + (list(leaves)
                                                     if not gk else []))))
                if not sub and depth2:
                    continue
                root = ((0, 0), kids + (list(leaves) if not sub else []))
                if root not in fam:
                    fam.append(root)
                # the same with the local sinks listed BEFORE the onward
                # children (the order of RoutingTree.children is free)
                if leaves and sub:
                    kids2 = [(l, (c, list(leaves) + [g for g in gk_
                                                     if g not in leaves]))
                             for l, (c, gk_) in kids]
                    root = ((0, 0), list(leaves) + kids2)
                    if root not in fam:
                        fam.append(root)
    # a tree rooted elsewhere, passing through (1,0) westwards, and a chain
    fam.append(((2, 0), [(3, ((1, 0), [(3, ((0, 0), [(7, "v")]))]))]))
    fam.append(((1, 1), [(5, ((1, 0), [(7, "w")]))]))
    fam.append(((1, 0), [(7, "w")]))
    return fam


def build_tree(spec, style=None):
    """style None: RoutingTree(chip) then children appended to .children;
    "topdown": the child list is created first, handed to the constructor
    while still empty and filled afterwards (the object must keep the
    caller's list); "ctor": complete child list given to the constructor."""
    from rig.place_and_route.routing_tree import RoutingTree
    from rig.routing_table import Routes
    chip, kids = spec
    if style == "topdown":
        lst = []
        node = RoutingTree(tuple(chip), lst)
        target = lst
    elif style == "ctor":
        target = []
        node = None
    else:
        node = RoutingTree(tuple(chip))
        target = node.children
    for route, child in kids:
        r = None if route is None else Routes(route)
        if isinstance(child, tuple):
            target.append((r, build_tree(child, style)))
        else:
            target.append((r, child))
    if style == "ctor":
        node = RoutingTree(tuple(chip), target)
    return node


def reference_tables(specs_keys):
    """Independent traversal. -> ('ok', {chip: {(key,mask): (outs, ins)}}) or
    ('error', chip)."""
    per = {}
    conflict = None

    def walk(spec, arrived_by, km):
        nonlocal conflict
        chip, kids = spec
        outs = frozenset(r for r, c in kids if r is not None)
        ins = None if arrived_by is None else (arrived_by + 3) % 6
        d = per.setdefault(tuple(chip), {})
        if km in d:
            if d[km][0] != outs:
                conflict = conflict or tuple(chip)
            d[km][1].add(ins)
        else:
            d[km] = (outs, {ins})
        for r, c in kids:
            if isinstance(c, tuple):
                walk(c, r, km)
    for spec, km in specs_keys:
        # breadth first order does not matter for sets
        walk(spec, None, km)
    if conflict:
        return ("error", conflict)
    return ("ok", per)


def judge_trees(specs_keys, acc, case):
    from rig.routing_table import routing_tree_to_tables, \
        MultisourceRouteError
    acc.evaluations += 1
    routes = {}
    net_keys = {}
    built = {}
    for i, (spec, km) in enumerate(specs_keys):
        net = "net%d" % i
        if case.get("share_objects"):
            # nets with equal trees are given the very same RoutingTree
            # object (as a router that caches trees would)
            k_ = repr(spec)
            if k_ not in built:
                built[k_] = build_tree(spec, case.get("style"))
            routes[net] = built[k_]
        else:
            routes[net] = build_tree(spec, case.get("style"))
        net_keys[net] = km
    want = reference_tables(specs_keys)
    try:
        got = routing_tree_to_tables(routes, net_keys)
    except MultisourceRouteError as e:
        acc.outcome("multisource_error")
        if want[0] != "error":
            acc.violation(dict(kind="spurious_multisource_error"), case,
                          "MultisourceRouteError (%s) although the trees "
                          "leave every shared chip by the same routes" % e)
        return
    except Exception as e:
        acc.violation(dict(kind="exception", exc=type(e).__name__), case,
                      "routing_tree_to_tables raised %s: %s"
                      % (type(e).__name__, e))
        return
    acc.outcome("tables")
    if want[0] == "error":
        acc.violation(dict(kind="missing_multisource_error"), case,
                      "two trees with the same key and mask leave chip %r by "
                      "different routes but no MultisourceRouteError was "
                      "raised" % (want[1],))
        return
    per = want[1]
    got = {k: v for k, v in got.items()}
    if set(got) != set(per):
        acc.violation(dict(kind="chip_set"), case,
                      "tables for chips %r, trees visit %r"
                      % (sorted(got), sorted(per)))
        return
    for chip, d in per.items():
        ents = got[chip]
        seen = {}
        for e in ents:
            km = (e.key, e.mask)
            if km in seen:
                acc.violation(dict(kind="duplicate_entry"), case,
                              "chip %r has two entries for %r" % (chip, km))
                return
            seen[km] = e
        if set(seen) != set(d):
            acc.violation(dict(kind="entry_set"), case,
                          "chip %r has entries %r, expected %r"
                          % (chip, sorted(seen), sorted(d)))
            return
        for km, (outs, ins) in d.items():
            e = seen[km]
            go = set(int(r) for r in e.route)
            gi = set(None if s is None else int(s) for s in e.sources)
            if go != set(outs):
                acc.violation(dict(kind="route"), case,
                              "chip %r key %r: route %r, trees leave by %r"
                              % (chip, km, sorted(go), sorted(outs)))
                return
            if gi != set(ins):
                acc.violation(dict(kind="sources"), case,
                              "chip %r key %r: sources %r, trees enter from "
                              "%r" % (chip, km, gi, ins))
                return


def part_trees(k, tier, acc):
    fam = tree_family()
    A, B = (0xbeef0000, 0xffff0000), (0x00010000, 0xffff0000)
    i = -1
    for a in range(len(fam)):
        i += 1
        if i % 16 == k:
            acc.nontrivial += 1
            judge_trees([(fam[a], A)], acc, dict(part="trees", trees=[a],
                                                 same=True))
            # other ways of building the same tree; the same object shared
            # by two nets with different / equal keys
            for style in ("topdown", "ctor"):
                judge_trees([(fam[a], A)], acc,
                            dict(part="trees", trees=[a], same=True,
                                 style=style))
            for same in (False, True):
                judge_trees([(fam[a], A), (fam[a], A if same else B)], acc,
                            dict(part="trees", trees=[a, a], same=same,
                                 share_objects=True))
        for b in range(len(fam)):
            i += 1
            if i % 16 != k:
                continue
            for same in (True, False):
                acc.nontrivial += 1
                judge_trees([(fam[a], A), (fam[b], A if same else B)], acc,
                            dict(part="trees", trees=[a, b], same=same))
    # three trees (thorough only: the pairwise logic is what the code has)
    if tier != "quick":
        for a, b, c in itertools.product(range(0, len(fam), 2), repeat=3):
            i += 1
            if i % 16 != k:
                continue
            judge_trees([(fam[a], A), (fam[b], A), (fam[c], A)], acc,
                        dict(part="trees", trees=[a, b, c], same=True))
    acc.sample(dict(part="trees", family=len(fam), example=repr(fam[7])))


# ---------------------------------------------------------------- router
def route_word(routes):
    w = 0
    for r in routes:
        w |= 1 << r
    return w


def judge_load(acc, case, entries, chip, app_id, prefill=None, via="entries",
               dims=(4, 8)):
    """entries: [(routes list, key, mask)]"""
    from rig.routing_table import RoutingTableEntry, Routes
    from rig.machine_control.machine_controller import SpiNNakerRouterError
    sim = SimMachine(repo(), dims[0], dims[1])
    c = sim.chips[tuple(chip)]
    for idx, app in (prefill or []):
        c.router[idx] = (0x1234, 0xffff, 1, app)
    before = list(c.router)
    others = {xy: list(ch.router) for xy, ch in sim.chips.items()
              if xy != tuple(chip)}
    rtes = [RoutingTableEntry({Routes(r) for r in rs}, key, mask)
            for rs, key, mask in entries]
    acc.evaluations += 1
    # can a block of len(entries) be allocated?
    run = best = 0
    for i in range(1, 1024):
        run = run + 1 if c.router[i] is None else 0
        best = max(best, run)
    fits = 0 < len(entries) <= best
    sim.full_sync_chips = {tuple(chip)}
    with Session(sim) as s:
        try:
            if via == "entries":
                s.mc.load_routing_table_entries(rtes, chip[0], chip[1],
                                                app_id)
            else:
                s.mc.load_routing_tables({tuple(chip): rtes}, app_id)
            outcome = "loaded"
        except SpiNNakerRouterError:
            outcome = "router_error"
        except Exception as e:
            acc.violation(dict(kind="exception", exc=type(e).__name__), case,
                          "load raised %s: %s" % (type(e).__name__, e))
            return
        acc.outcome(outcome)
        if sim.errors:
            acc.violation(dict(kind="malformed_command"), case,
                          "machine saw: %s" % sim.errors[0])
        if outcome == "router_error":
            if fits:
                acc.violation(dict(kind="spurious_router_error"), case,
                              "SpiNNakerRouterError although a free block of "
                              "%d entries exists" % best)
            if c.router != before:
                acc.violation(dict(kind="installed_despite_error"), case,
                              "router changed although the load failed")
            return
        if not fits:
            acc.violation(dict(kind="missing_router_error"), case,
                          "no error although %d entries cannot be allocated "
                          "(largest free block %d)" % (len(entries), best))
            return
        # where did they go?
        new = [i for i in range(1024) if c.router[i] != before[i]]
        want = [(key, mask, route_word(rs), app_id)
                for rs, key, mask in entries]
        if len(new) != len(entries) or new != list(range(new[0], new[0] +
                                                         len(new))):
            acc.violation(dict(kind="block"), case,
                          "changed router entries %r..., expected one block "
                          "of %d" % (new[:6], len(entries)))
            return
        got = [c.router[i] for i in new]
        if got != want:
            j = next(j for j in range(len(want)) if got[j] != want[j])
            acc.violation(
                dict(kind="router_contents"), case,
                "router entry %d holds (key, mask, route, app) = %r "
                "(\"alloc\" = allocated but never loaded), given entry %d "
                "is key=%#x mask=%#x route=%#x app=%d"
                % ((new[j], got[j], j) + want[j]))
            return
        if any(ch.router != others[xy] for xy, ch in sim.chips.items()
               if xy != tuple(chip)):
            acc.violation(dict(kind="other_chip_changed"), case,
                          "another chip's router changed")
        # read back
        try:
            back = s.mc.get_routing_table_entries(chip[0], chip[1])
        except Exception as e:
            acc.violation(dict(kind="readback_exception",
                               exc=type(e).__name__), case,
                          "get_routing_table_entries raised %r" % e)
            return
        if len(back) != 1024:
            acc.violation(dict(kind="readback_length"), case,
                          "read back %d entries" % len(back))
            return
        for j, i in enumerate(new):
            b = back[i]
            rs, key, mask = entries[j]
            ok = (b is not None and b[0].key == key and b[0].mask == mask and
                  set(int(r) for r in b[0].route) == set(rs) and
                  b[1] == app_id)
            if not ok:
                acc.violation(dict(kind="readback"), case,
                              "entry %d reads back as %r, loaded %r"
                              % (i, b, (rs, hex(key), hex(mask), app_id)))
                return
        for i in range(1024):
            if before[i] is None and i not in new and back[i] is not None:
                acc.violation(dict(kind="readback_phantom"), case,
                              "unused entry %d reads back as %r"
                              % (i, back[i]))
                return


def judge_load_history(acc):
    """One controller, one chip: a load that cannot be allocated, then the
    other application's entries are cleared, then the same load again (and
    the other way round: load, fill up, fail, clear, load)."""
    from rig.routing_table import RoutingTableEntry, Routes
    from rig.machine_control.machine_controller import SpiNNakerRouterError
    n = 5
    e = [([i, 6 + i], 0x100 + i, 0xffffff00) for i in range(n)]
    rtes = [RoutingTableEntry({Routes(r) for r in rs}, key, mask)
            for rs, key, mask in e]
    want = [(key, mask, route_word(rs), 66) for rs, key, mask in e]
    for chip in ((0, 0), (1, 2)):
        for via in ("entries", "tables"):
            sim = SimMachine(repo(), 2, 3)
            c = sim.chips[chip]
            for i in range(1, 1024 - n + 1):
                c.router[i] = (0x1234, 0xffff, 1, 9)
            sim.full_sync_chips = {chip}
            case = dict(part="router", sub="history", chip=list(chip),
                        via=via)
            acc.evaluations += 1
            acc.nontrivial += 1

            def load(mc):
                try:
                    if via == "entries":
                        mc.load_routing_table_entries(rtes, chip[0], chip[1],
                                                      66)
                    else:
                        mc.load_routing_tables({chip: rtes}, 66)
                    return "loaded"
                except SpiNNakerRouterError:
                    return "router_error"
            with Session(sim) as s:
                try:
                    before = list(c.router)
                    first = load(s.mc)
                    mid = list(c.router)
                    s.mc.clear_routing_table_entries(chip[0], chip[1], 9)
                    cleared = list(c.router)
                    second = load(s.mc)
                except Exception as ex:
                    acc.violation(dict(kind="exception",
                                       exc=type(ex).__name__), case,
                                  "history raised %s: %s"
                                  % (type(ex).__name__, ex))
                    continue
                new = [i for i in range(1024) if c.router[i] != cleared[i]]
                if first != "router_error" or mid != before:
                    acc.violation(dict(kind="missing_router_error"), case,
                                  "first load (one entry short): %s" % first)
                elif any(x is not None and x[3] == 9 for x in cleared):
                    acc.violation(dict(kind="harness"), case,
                                  "clearing did not free the entries")
                elif second != "loaded" or \
                        [c.router[i] for i in new] != want:
                    acc.violation(
                        dict(kind="load_after_failed_load"), case,
                        "a table of %d entries could not be allocated; the "
                        "other application's entries were cleared; loading "
                        "it again: %s, router entries changed: %r"
                        % (n, second, [(i, c.router[i]) for i in new][:6]))
                if sim.errors:
                    acc.violation(dict(kind="malformed_command"), case,
                                  "machine saw: %s" % sim.errors[0])


KM = [(0, 0), (1, 1), (0x80000000, 0x80000000), (0xffffffff, 0xffffffff),
      (0xa5a5a5a5, 0xffff0000), (0xbeef, 0xffff0000)]


def part_router(sub, tier, acc, k=None):
    chips = ([0, 0], [3, 7])
    if sub == "bits":
        for r in range(24):
            for chip in chips:
                for app in (0, 1, 66, 255):
                    acc.nontrivial += 1
                    e = [([r], 0xa5a5a5a5, 0xffffffff)]
                    judge_load(acc, dict(part="router", sub=sub, entries=e,
                                         chip=chip, app=app), e, chip, app)
    elif sub == "pairs":
        for a, b in itertools.combinations(range(24), 2):
            if k is not None and (a + b) % 6 != k:
                continue
            acc.nontrivial += 1
            e = [([a, b], 0x10, 0xfffffff0), ([b], 0x20, 0xfffffff0),
                 ([a], 0x30, 0xfffffff0)]
            judge_load(acc, dict(part="router", sub=sub, entries=e,
                                 chip=[0, 0], app=66), e, [0, 0], 66,
                       via="tables" if (a + b) % 2 else "entries")
    elif sub == "links":
        for links in range(64):
            ls = [l for l in range(6) if links & (1 << l)]
            for cores in ([], [6 + 5], list(range(6, 24))):
                if not ls and not cores:
                    continue
                acc.nontrivial += 1
                key, mask = KM[links % len(KM)]
                e = [(ls + cores, key, mask)]
                judge_load(acc, dict(part="router", sub=sub, entries=e,
                                     chip=[3, 7], app=1), e, [3, 7], 1)
    elif sub == "lengths":
        # 0 entries: the machine's allocator refuses an empty block (as
        # SARK's does), which is "the block cannot be allocated"
        for n in (0, 1, 2, 3, 16, 1023, 1024):
            for app in (0, 66):
                acc.nontrivial += 1
                e = [([i % 24], i, 0xffffffff) for i in range(n)]
                judge_load(acc, dict(part="router", sub=sub, n=n, chip=[0, 0],
                                     app=app, entries=None), e, [0, 0], app)
        # entries whose route set is empty (a leaf without route)
        for e in ([([], 0x5, 0xffffffff)],
                  [([], 0x5, 0xffffffff), ([3], 0x6, 0xffffffff),
                   ([], 0x7, 0xffffffff)]):
            acc.nontrivial += 1
            judge_load(acc, dict(part="router", sub=sub, entries=e,
                                 chip=[0, 0], app=66), e, [0, 0], 66)
        for key, mask in KM:
            acc.nontrivial += 1
            e = [([0], key, mask), ([7], key ^ 1, mask)]
            judge_load(acc, dict(part="router", sub=sub, entries=e,
                                 chip=[0, 0], app=66), e, [0, 0], 66)
    elif sub == "freelist":
        judge_load_history(acc)
        n = 5
        states = {
            "empty": [],
            "fragmented": [(i, 9) for i in range(1, 1024, 3)],
            "fragmented5": [(i, 9) for i in range(1, 1024) if i % 7 in (0, 1)],
            "exactly_enough": [(i, 9) for i in range(1, 1024 - n)],
            "one_short": [(i, 9) for i in range(1, 1024 - n + 1)],
            "hole_in_middle": [(i, 9) for i in range(1, 1024)
                               if not 500 <= i < 500 + n],
            "hole_one_short": [(i, 9) for i in range(1, 1024)
                               if not 500 <= i < 500 + n - 1],
            "full": [(i, 9) for i in range(1, 1024)],
            "same_app_present": [(i, 66) for i in range(1, 4)],
            # the application already owns entries and the new table cannot
            # be allocated: its earlier entries stay
            "same_app_then_full": [(i, 66 if i < 4 else 9)
                                   for i in range(1, 1024)],
            "same_app_one_short": [(i, 66 if i % 2 else 9)
                                   for i in range(1, 1024 - n + 1)],
        }
        for name, pre in states.items():
            for via in ("entries", "tables"):
                acc.nontrivial += 1
                e = [([i, 6 + i], 0x100 + i, 0xffffff00) for i in range(n)]
                judge_load(acc, dict(part="router", sub=sub, state=name,
                                     chip=[0, 0], app=66, entries=e,
                                     prefill_name=name), e, [0, 0], 66,
                           prefill=pre, via=via)
    elif sub == "tables":
        # several chips in one load_routing_tables call
        from rig.routing_table import RoutingTableEntry, Routes
        sim = SimMachine(repo(), 2, 2)
        same = [([7, 2], 2, 0xffffffff), ([5], 3, 0xffffffff)]
        for tables in (
                {(0, 0): [([0], 1, 0xffffffff)], (1, 1): list(same),
                 (1, 0): [([23], 4, 0xfffffff0)]},
                # identical tables on several chips, and twice on one chip
                {(0, 0): list(same), (1, 1): list(same), (1, 0): list(same)},
                {(1, 0): list(same), (0, 1): [([1], 9, 0xffffffff)],
                 (1, 1): list(same)}):
            part_tables_case(acc, sub, tables)
        return
    acc.sample(dict(part="router", sub=sub))


def part_tables_case(acc, sub, tables):
    from rig.routing_table import RoutingTableEntry, Routes
    for uniform in (False, True):
        # the staging buffer lives at the same address on every chip
        # (usual on hardware) or at chip-dependent addresses
        sim = SimMachine(repo(), 2, 2, uniform_sys=uniform)
        acc.evaluations += 1
        acc.nontrivial += 1
        case = dict(part="router", sub=sub, uniform_sys=uniform)
        # the staging buffers hold different garbage on every chip
        with Session(sim) as s:
            try:
                s.mc.load_routing_tables(
                    {c: [RoutingTableEntry({Routes(r) for r in rs}, k, m)
                         for rs, k, m in t] for c, t in tables.items()}, 7)
            except Exception as e:
                acc.violation(dict(kind="exception", exc=type(e).__name__),
                              case, "load_routing_tables raised %r" % e)
                return
            # ... and a second load of the same entries on the first chip
            first = sorted(tables)[0]
            try:
                s.mc.load_routing_table_entries(
                    [RoutingTableEntry({Routes(r) for r in rs}, k, m)
                     for rs, k, m in tables[first]], first[0], first[1], 7)
            except Exception as e:
                acc.violation(dict(kind="exception", exc=type(e).__name__),
                              case, "second load raised %r" % e)
                return
            for c in sim.chips:
                t = tables.get(c, [])
                got = [e for e in sim.chips[c].router[1:] if e is not None]
                want = [(k, m, route_word(rs), 7) for rs, k, m in t]
                if c == first:
                    want = want + want
                if got != want:
                    acc.violation(dict(kind="router_contents"), case,
                                  "chip %r router holds %r, expected %r "
                                  "(tables %r)" % (c, got, want,
                                                   sorted(tables)))
            if sim.errors:
                acc.violation(dict(kind="malformed_command"), case,
                              sim.errors[0])
            # one controller reads every chip's router back
            for c in sorted(sim.chips):
                t = list(tables.get(c, []))
                if c == first:
                    t = t + t
                try:
                    back = s.mc.get_routing_table_entries(c[0], c[1])
                except Exception as e:
                    acc.violation(dict(kind="readback_exception",
                                       exc=type(e).__name__), case,
                                  "get_routing_table_entries%r raised %r"
                                  % (c, e))
                    break
                got = [(sorted(int(r) for r in b[0].route), b[0].key,
                        b[0].mask, b[1]) for b in back[1:] if b is not None]
                want = [(sorted(rs), k, m, 7) for rs, k, m in t]
                if got != want:
                    acc.violation(dict(kind="readback"), case,
                                  "chip %r reads back as %r, its router was "
                                  "loaded with %r" % (c, got, want))
                    break


def run_shard(params, tier, acc):
    if params["part"] == "trees":
        part_trees(params["k"], tier, acc)
    else:
        part_router(params["sub"], tier, acc, params.get("k"))


def replay(case, acc):
    if case["part"] == "trees":
        fam = tree_family()
        A, B = (0xbeef0000, 0xffff0000), (0x00010000, 0xffff0000)
        sk = [(fam[t], A if (i == 0 or case["same"]) else B)
              for i, t in enumerate(case["trees"])]
        judge_trees(sk, acc, case)
    elif case.get("sub") == "history":
        judge_load_history(acc)
    else:
        part_router(case["sub"], "quick", acc)


def selftest():
    t1 = ((0, 0), [(0, ((1, 0), [(7, "v")]))])
    t2 = ((0, 0), [(2, ((0, 1), [(7, "v")]))])
    km = (1, 0xffffffff)
    assert reference_tables([(t1, km), (t1, km)])[0] == "ok"
    assert reference_tables([(t1, km), (t2, km)]) == ("error", (0, 0))
    ok, per = reference_tables([(t1, km)])
    assert per[(1, 0)][km] == (frozenset([7]), {3})
