"""Independent oracles for place-and-route results (used by C01, C02, C03).
Nothing in here imports rig's algorithms; link vectors are restated."""
import collections

# link number -> (dx, dy): E, NE, N, W, SW, S  (SpiNNaker link numbering)
VEC = {0: (1, 0), 1: (1, 1), 2: (0, 1), 3: (-1, 0), 4: (-1, -1), 5: (0, -1)}
LINK_NAMES = ["E", "NE", "N", "W", "SW", "S"]


class M(object):
    """The oracle's own view of a machine."""

    def __init__(self, w, h, dead_chips=(), dead_links=()):
        self.w, self.h = w, h
        self.dead_chips = set(map(tuple, dead_chips))
        self.dead_links = set((x, y, int(l)) for x, y, l in dead_links)
        self.chips = [(x, y) for x in range(w) for y in range(h)
                      if (x, y) not in self.dead_chips]
        self.alive = set(self.chips)

    def dest(self, chip, link):
        dx, dy = VEC[int(link)]
        return ((chip[0] + dx) % self.w, (chip[1] + dy) % self.h)

    def link_ok(self, chip, link):
        """Working link from a working chip to a working chip."""
        return (chip in self.alive and
                (chip[0], chip[1], int(link)) not in self.dead_links and
                self.dest(chip, link) in self.alive)

    def succ(self, chip):
        for l in range(6):
            if self.link_ok(chip, l):
                yield self.dest(chip, l)

    def reach(self, start, forward=True):
        if forward:
            nb = self.succ
        else:
            pred = collections.defaultdict(list)
            for c in self.chips:
                for d in self.succ(c):
                    pred[d].append(c)
            nb = lambda c: pred[c]   # noqa
        seen = {start}
        q = collections.deque([start])
        while q:
            c = q.popleft()
            for n in nb(c):
                if n not in seen:
                    seen.add(n)
                    q.append(n)
        return seen

    def strongly_connected(self):
        if not self.chips:
            return True
        s = self.chips[0]
        return (self.reach(s, True) == self.alive and
                self.reach(s, False) == self.alive)

    def to_rig(self, chip_resources=None, exceptions=None):
        from rig.place_and_route import Machine, Cores
        from rig.links import Links
        kw = {}
        if chip_resources is not None:
            kw["chip_resources"] = chip_resources
        if exceptions:
            kw["chip_resource_exceptions"] = exceptions
        return Machine(self.w, self.h, dead_chips=set(self.dead_chips),
                       dead_links=set((x, y, Links(l))
                                      for x, y, l in self.dead_links), **kw)


def wrap_links(w, h):
    """Directed links that cross the edge of a w x h array."""
    out = set()
    for x in range(w):
        for y in range(h):
            for l, (dx, dy) in VEC.items():
                nx, ny = x + dx, y + dy
                if not (0 <= nx < w and 0 <= ny < h):
                    out.add((x, y, l))
    return out


def all_links(w, h):
    return [(x, y, l) for x in range(w) for y in range(h) for l in range(6)]


def walk_tree(root, m, is_tree_node):
    """Independent walk of a routing tree.

    Returns (error or None, leaves) where leaves is a list of
    (chip, route_or_None, obj) for every non-tree child."""
    leaves = []
    seen_chips = {}
    seen_ids = set()
    stack = [root]
    if tuple(root.chip) not in m.alive:
        return "root chip %r is not a working chip" % (root.chip,), leaves
    seen_chips[tuple(root.chip)] = 1
    seen_ids.add(id(root))
    n = 0
    while stack:
        node = stack.pop()
        n += 1
        if n > 10000:
            return "tree walk does not terminate (cycle)", leaves
        chip = tuple(node.chip)
        for route, obj in node.children:
            if is_tree_node(obj):
                if route is None or not 0 <= int(route) <= 5:
                    return ("edge from %r to %r labelled %r is not a link"
                            % (chip, obj.chip, route)), leaves
                dest = tuple(obj.chip)
                if m.dest(chip, route) != dest:
                    return ("edge %s from %r arrives at %r, tree says %r"
                            % (LINK_NAMES[int(route)], chip,
                               m.dest(chip, route), dest)), leaves
                if dest not in m.alive:
                    return "tree visits dead chip %r" % (dest,), leaves
                if not m.link_ok(chip, route):
                    return ("hop %r -%s-> %r uses a dead link"
                            % (chip, LINK_NAMES[int(route)], dest)), leaves
                if dest in seen_chips or id(obj) in seen_ids:
                    return "chip %r appears twice in the tree" % (dest,), \
                        leaves
                seen_chips[dest] = 1
                seen_ids.add(id(obj))
                stack.append(obj)
            else:
                leaves.append((chip, None if route is None else int(route),
                               obj))
    return None, leaves
